#!/usr/bin/env python3
"""Regenerates /verif/MANIFEST.json from tools/checks_meta.jsonl (one JSON object per claimed check)."""
import json

ROOT = "/verif"
props = [json.loads(l) for l in open(f"{ROOT}/properties.jsonl")]
meta = {}
for l in open(f"{ROOT}/tools/checks_meta.jsonl"):
    l = l.strip()
    if l and not l.startswith("#"):
        m = json.loads(l)
        meta[m["id"]] = m

TECH = {
 "E1": "stateless model checking: exhaustive deviation-bounded DFS over the schedules of the real code under a controlled scheduler (vsched)",
 "E3": "explicit-state model checking: breadth-first search whose every transition calls the real handlers; canonical-state dedup",
 "E4": "exhaustive crash-point / single-fault enumeration over an in-memory file system behind the real snapshot code",
 "E5": "bounded exhaustive enumeration of a finite input / operation-sequence space of the real code against a reference model",
}
NOT_YET = "check not built yet in this session (planned, see DESIGN.md §4)"

checks, na = [], []
for p in props:
    id = p["id"]
    if id in meta:
        c = meta[id]
        tech = " + ".join(TECH[t] for t in c["engines"])
        checks.append({
            "property_id": id,
            "quick_cmd": f"./check {id} quick",
            "thorough_cmd": f"./check {id} thorough",
            "evidence_file": f"/verif/evidence/{id}.json",
            "replay_cmd_template": f"./check {id} quick --replay {{path}}",
            "engine": "+".join(c["engines"]),
            "level_claimed": {"category": c["cat"], "text": c["text"], "design_ref": f"DESIGN.md §4 {id}"},
            "level_note": c["note"],
            "technique": tech,
        })
    else:
        na.append({"property_id": id, "reason": NOT_YET})
m = {
    "version": 1,
    "setup_cmd": "./setup.sh",
    "hooks": {
        "guard": "verif",
        "enable": "no source hooks in /repo: ./check regenerates an instrumented copy of the current working tree with engine/vinstr and builds it with `go build -overlay build/instr/overlay.json` (shim packages mounted as github.com/hashicorp/serf/zzverif/*; the accessor files under engine/inject exist only in the overlay)",
        "baseline_off_cmd": "cd /repo && GOFLAGS=-mod=mod GOPROXY=off go test -vet=off -count=1 -timeout 25m ./...",
        "source_commits": [],
        "add_only": True,
    },
    "engines": [
        {"name": "E1 vsched", "path": "engine/shims/vsched", "kind_free_text": "controlled cooperative scheduler + deviation-bounded DFS explorer (stateless model checking of the real code), virtual time", "serves_properties": sorted(k for k, v in meta.items() if "E1" in v["engines"])},
        {"name": "E2 vinstr", "path": "engine/vinstr", "kind_free_text": "go/ast rewriter producing a go build overlay: import seams, channel/select/go rewriting, statement-level points", "serves_properties": sorted(meta)},
        {"name": "E3 vbfs", "path": "harness/vbfs", "kind_free_text": "explicit-state BFS over real handlers with canonical state dedup", "serves_properties": sorted(k for k, v in meta.items() if "E3" in v["engines"])},
        {"name": "E4 vos", "path": "engine/shims/vos", "kind_free_text": "in-memory file system with operation log, crash images and single-fault plans", "serves_properties": sorted(k for k, v in meta.items() if "E4" in v["engines"])},
        {"name": "E5 venum", "path": "harness/checks", "kind_free_text": "exhaustive enumeration of finite input / sequence spaces against reference models, sharded over worker processes", "serves_properties": sorted(k for k, v in meta.items() if "E5" in v["engines"])},
        {"name": "vc", "path": "harness/vc", "kind_free_text": "check driver: process sharding, merge, known findings, evidence, replay", "serves_properties": sorted(meta)},
    ],
    "checks": checks,
    "not_applicable": na,
    "notes": "All checks rebuild from /repo's working tree on every run (./check). Known findings and fixed defects: known_findings.jsonl. Mutants used to demonstrate detection: mutants/, seeded/.",
}
json.dump(m, open(f"{ROOT}/MANIFEST.json", "w"), indent=1)
print(f"claimed {len(checks)}, not claimed {len(na)}")
