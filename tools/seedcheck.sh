#!/bin/bash
# usage: seedcheck.sh <seed dir (…/SEED/Cxx)> <ID> [tier]
# Verifies a seeded change: patch applies, demo passes without / fails with the change,
# then runs our check against /repo with the patch applied and reverts.
set -u
SD=$(readlink -f "$1"); ID=$2; TIER=${3:-quick}; RUNRE=${4:-.}
export GOFLAGS=-mod=mod GOPROXY=off
W=/tmp/seedverify.$$
git -C /repo worktree add -q --detach $W || exit 3
trap 'git -C /repo worktree remove --force $W >/dev/null 2>&1' EXIT
echo "== demo without change"; (bash $SD/demo.sh $W >/tmp/seed_demo_clean.log 2>&1; echo "rc=$?")
(cd $W && git checkout -q -- . && git clean -fdq)
(cd $W && git apply $SD/patch.diff) || { echo "PATCH DOES NOT APPLY"; exit 3; }
(cd $W && go build ./... ) || { echo "DOES NOT BUILD"; exit 3; }
echo "== demo with change"; (bash $SD/demo.sh $W >/tmp/seed_demo_mut.log 2>&1; echo "rc=$?")
PK=$(cd $W && git diff --name-only | xargs -n1 dirname | sort -u | sed 's#^#./#' | tr '\n' ' ')
echo "== existing tests of touched packages with change: $PK"
(cd $W && git clean -fdq -e '!*' 2>/dev/null; find . -name 'zz_seed*' -delete; go test -vet=off -count=1 -run "$RUNRE" $PK 2>&1 | grep -E "^(ok|FAIL|---)" | head -20)
if [ "${SEED_IN_REPO:-0}" = 1 ]; then
  echo "== our check on /repo with the change"
  cd /repo && git diff --quiet || { echo "repo dirty"; exit 3; }
  git apply $SD/patch.diff || exit 3
  /verif/check $ID $TIER 2>&1 | grep -E "^(VIOLATION|KNOWN|property=|HARNESS)" | cut -c1-220 | head -8
  git -C /repo checkout -- .
else
  # same thing without touching /repo (safe while other runs are reading it): the scratch worktree
  # is /repo's HEAD plus the change
  echo "== our check on a scratch worktree of /repo HEAD with the change"
  (cd $W && git status --short | grep -v '^??' | head -5)
  VERIF_REPO=$W /verif/check $ID $TIER 2>&1 | grep -E "^(VIOLATION|KNOWN|property=|HARNESS)" | cut -c1-220 | head -8
fi
