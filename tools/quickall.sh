#!/bin/bash
# usage: tools/quickall.sh [rounds]   -- every quick check on the unchanged tree, <rounds> times;
# prints anything that is not silence (VIOLATION, HARNESS-ERROR, non-zero exit) and exits 1 if there was any.
cd "$(dirname "$0")/.."
R=${1:-1}; bad=0
for round in $(seq 1 $R); do
  for c in $(jq -r '.checks[].property_id' MANIFEST.json); do
    out=$(./check $c quick 2>&1); rc=$?
    if [ $rc -ne 0 ] || echo "$out" | grep -qE "^(VIOLATION|HARNESS)"; then
      bad=1; echo "round $round $c rc=$rc"; echo "$out" | grep -E "^(VIOLATION|HARNESS)" | head -3
    fi
  done
  echo "round $round done"
done
exit $bad
