#!/bin/bash
# Self-test of the instrumenter: a scratch copy of /repo's HEAD plus a file of legal Go constructs
# that a change might introduce (engine/vinstr/testdata/zz_torture.go.txt) must still instrument
# and build. Exit 0 = builds.
set -u
ROOT=$(cd "$(dirname "$0")/.." && pwd)
export GOFLAGS=-mod=mod GOPROXY=off
W=/tmp/vinstr_selftest.$$
git -C /repo worktree add -q --detach $W || exit 3
trap 'git -C /repo worktree remove --force $W >/dev/null 2>&1' EXIT
cp $ROOT/engine/vinstr/testdata/zz_torture.go.txt $W/serf/zz_torture.go
cat $ROOT/engine/vinstr/testdata/snapshot_extra.go.txt >> $W/serf/snapshot.go
cp $ROOT/engine/vinstr/testdata/client_extra.go.txt $W/client/zz_torture.go
(cd $W && go build ./serf/ ./client/) || { echo "torture file does not compile uninstrumented"; exit 3; }
VERIF_REPO=$W $ROOT/check SMOKE quick 2>&1 | tail -15
rc=${PIPESTATUS[0]}
echo "selftest rc=$rc"
exit $rc
