package agent

// Verification overlay only (mounted by `go build -overlay`, not instrumented).

import (
	"log"

	"github.com/hashicorp/serf/serf"
)

// VInvokeEventScript exposes invokeEventScript (invoke.go) to the C27 harness.
func VInvokeEventScript(logger *log.Logger, script string, self serf.Member, event serf.Event) error {
	return invokeEventScript(logger, script, self, event)
}

// VMaxBufSize is the amount of handler output that is kept (invoke.go).
const VMaxBufSize = maxBufSize
