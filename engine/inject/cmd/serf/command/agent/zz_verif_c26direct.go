package agent

// Verification accessor for property C26: the member filter called directly (any member list).
// Kept in its own file: if a change alters the signature of the unexported function, only this
// accessor and the scenarios that use it are left out; the RPC-path scenarios still run.

import "github.com/hashicorp/serf/serf"

// VFilterMembers calls the unexported member filter of the IPC server.
func VFilterMembers(members []serf.Member, tags map[string]string, status, name string) ([]serf.Member, error) {
	return (&AgentIPC{}).filterMembers(members, tags, status, name)
}
