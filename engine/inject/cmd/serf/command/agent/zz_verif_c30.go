package agent

// Verification overlay only (mounted by `go build -overlay`, not instrumented).

import (
	"bufio"
	"bytes"
	"io"
	"log"

	"github.com/hashicorp/go-msgpack/v2/codec"
)

// VHandleTags runs the real IPC "tags" command handler (ipc.go handleTags) of an
// AgentIPC bound to agent a on one msgpack-encoded request, exactly as
// handleClient would after reading the request header. It returns the Error
// field of the response header the handler sent and the handler's own error.
func VHandleTags(a *Agent, set map[string]string, del []string) (respErr string, err error) {
	i := &AgentIPC{agent: a, logger: log.New(io.Discard, "", 0)}
	var in, out bytes.Buffer
	if err := codec.NewEncoder(&in, i.newMsgpackHandle()).Encode(&tagsRequest{Tags: set, DeleteTags: del}); err != nil {
		return "", err
	}
	c := &IPCClient{name: "verif", reader: bufio.NewReader(&in), writer: bufio.NewWriter(&out)}
	c.dec = codec.NewDecoder(c.reader, i.newMsgpackHandle())
	c.enc = codec.NewEncoder(c.writer, i.newMsgpackHandle())
	if err := i.handleTags(c, 7); err != nil {
		return "", err
	}
	var hdr responseHeader
	if err := codec.NewDecoder(&out, i.newMsgpackHandle()).Decode(&hdr); err != nil {
		return "", err
	}
	return hdr.Error, nil
}
