package agent

// Verification-only accessors for the IPC streams (mounted by the overlay only).

import (
	"fmt"
	"io"
	"log"

	"github.com/hashicorp/serf/serf"
)

// VRecord is one record a stream handed to its client.
type VRecord struct {
	Seq     uint64
	Error   string
	Kind    string // member | user | query | ack | response | done | other
	Event   string
	Name    string
	From    string
	Payload string
	LTime   uint64
	Members []string
}

// VRecorder is a streamClient that records what it is sent.
type VRecorder struct {
	Records []VRecord
	Queries int
	Fail    error // returned by Send when set
}

func (r *VRecorder) Send(h *responseHeader, obj any) error {
	rec := VRecord{Seq: h.Seq, Error: h.Error, Kind: "other"}
	switch b := obj.(type) {
	case *memberEventRecord:
		rec.Kind, rec.Event = "member", b.Event
		for _, m := range b.Members {
			rec.Members = append(rec.Members, m.Name)
		}
	case *userEventRecord:
		rec.Kind, rec.Event, rec.Name, rec.Payload, rec.LTime = "user", b.Event, b.Name, string(b.Payload), uint64(b.LTime)
	case *queryEventRecord:
		rec.Kind, rec.Event, rec.Name, rec.Payload, rec.LTime = "query", b.Event, b.Name, string(b.Payload), uint64(b.LTime)
	case *queryRecord:
		rec.Kind, rec.From, rec.Payload = b.Type, b.From, string(b.Payload)
	default:
		rec.Event = fmt.Sprintf("%T", obj)
	}
	r.Records = append(r.Records, rec)
	return r.Fail
}

func (r *VRecorder) RegisterQuery(q *serf.Query) uint64 {
	r.Queries++
	return uint64(r.Queries)
}

func (r *VRecorder) String() string { return "verif-recorder" }

// VEventStream wraps a real eventStream.
type VEventStream struct{ es *eventStream }

// VNewEventStream starts a real event stream (and its goroutine) with the given filter spec.
func VNewEventStream(rec *VRecorder, filterSpec string, seq uint64, logOut io.Writer) *VEventStream {
	return &VEventStream{newEventStream(rec, ParseEventFilter(filterSpec), seq, log.New(logOut, "", 0))}
}

func (v *VEventStream) HandleEvent(e serf.Event) { v.es.HandleEvent(e) }
func (v *VEventStream) Stop()                    { v.es.Stop() }

// VFilterMatches evaluates the filter spec on an event with the real filter code.
func VFilterMatches(filterSpec string, e serf.Event) bool {
	for _, f := range ParseEventFilter(filterSpec) {
		if f.Invoke(e) {
			return true
		}
	}
	return false
}

// VStreamQueryResponse runs the real queryResponseStream.Stream on resp.
func VStreamQueryResponse(rec *VRecorder, seq uint64, resp *serf.QueryResponse, logOut io.Writer) {
	newQueryResponseStream(rec, seq, log.New(logOut, "", 0)).Stream(resp)
}
