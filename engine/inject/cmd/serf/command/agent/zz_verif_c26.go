package agent

// Verification accessors for property C26 (member filter). Mounted only in the
// verification overlay.

import (
	"bufio"
	"bytes"
	"io"
	"log"

	"github.com/hashicorp/go-msgpack/v2/codec"
	"github.com/hashicorp/serf/serf"
)


// VMembersReply is what a client would read after one members request.
type VMembersReply struct {
	HandlerErr error  // error returned by the request handler (the server drops the connection)
	ReplyBytes int    // bytes written to the client
	HasHeader  bool   // a response header could be decoded
	Seq        uint64 // header.Seq
	HeaderErr  string // header.Error
	HasBody    bool   // a member list followed the header
	Members    []Member
}

// VMembersRPC pushes one "members" / "members-filtered" request through the
// real request dispatcher (handleRequest -> handleMembers -> filterMembers)
// with in-memory buffers in place of the TCP connection.
func VMembersRPC(s *serf.Serf, command string, seq uint64, tags map[string]string, status, name string) VMembersReply {
	return VNewMembersConn(s).Request(command, seq, tags, status, name)
}

// VMembersConn is one client connection on which several members requests are made one after another.
type VMembersConn struct {
	ipc     *AgentIPC
	c       *IPCClient
	in, out *bytes.Buffer
}

func VNewMembersConn(s *serf.Serf) *VMembersConn {
	v := &VMembersConn{ipc: &AgentIPC{agent: &Agent{serf: s}, logger: log.New(io.Discard, "", 0)}, in: &bytes.Buffer{}, out: &bytes.Buffer{}}
	v.c = &IPCClient{
		name:           "verif",
		reader:         bufio.NewReader(v.in),
		writer:         bufio.NewWriter(v.out),
		eventStreams:   make(map[uint64]*eventStream),
		pendingQueries: make(map[uint64]*serf.Query),
		version:        MaxIPCVersion,
	}
	v.c.dec = codec.NewDecoder(v.c.reader, v.ipc.newMsgpackHandle())
	v.c.enc = codec.NewEncoder(v.c.writer, v.ipc.newMsgpackHandle())
	return v
}

// Request pushes one "members" / "members-filtered" request through the real dispatcher on this connection.
func (v *VMembersConn) Request(command string, seq uint64, tags map[string]string, status, name string) VMembersReply {
	ipc, c := v.ipc, v.c
	in, out := v.in, v.out
	out.Reset()
	if command == membersFilteredCommand {
		req := membersFilteredRequest{Tags: tags, Status: status, Name: name}
		if err := codec.NewEncoder(in, ipc.newMsgpackHandle()).Encode(&req); err != nil {
			return VMembersReply{HandlerErr: err}
		}
	}
	var r VMembersReply
	r.HandlerErr = ipc.handleRequest(c, &requestHeader{Command: command, Seq: seq})
	r.ReplyBytes = out.Len()
	dec := codec.NewDecoder(out, ipc.newMsgpackHandle())
	var h responseHeader
	if dec.Decode(&h) != nil {
		return r
	}
	r.HasHeader, r.Seq, r.HeaderErr = true, h.Seq, h.Error
	var body membersResponse
	if dec.Decode(&body) == nil {
		r.HasBody, r.Members = true, body.Members
	}
	return r
}
