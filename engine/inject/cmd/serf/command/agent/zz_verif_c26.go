package agent

// Verification accessors for property C26 (member filter). Mounted only in the
// verification overlay.

import (
	"bufio"
	"bytes"
	"io"
	"log"

	"github.com/hashicorp/go-msgpack/v2/codec"
	"github.com/hashicorp/serf/serf"
)

// VFilterMembers calls the unexported member filter of the IPC server.
func VFilterMembers(members []serf.Member, tags map[string]string, status, name string) ([]serf.Member, error) {
	return (&AgentIPC{}).filterMembers(members, tags, status, name)
}

// VMembersReply is what a client would read after one members request.
type VMembersReply struct {
	HandlerErr error  // error returned by the request handler (the server drops the connection)
	ReplyBytes int    // bytes written to the client
	HasHeader  bool   // a response header could be decoded
	Seq        uint64 // header.Seq
	HeaderErr  string // header.Error
	HasBody    bool   // a member list followed the header
	Members    []Member
}

// VMembersRPC pushes one "members" / "members-filtered" request through the
// real request dispatcher (handleRequest -> handleMembers -> filterMembers)
// with in-memory buffers in place of the TCP connection.
func VMembersRPC(s *serf.Serf, command string, seq uint64, tags map[string]string, status, name string) VMembersReply {
	ipc := &AgentIPC{agent: &Agent{serf: s}, logger: log.New(io.Discard, "", 0)}
	var in, out bytes.Buffer
	if command == membersFilteredCommand {
		req := membersFilteredRequest{Tags: tags, Status: status, Name: name}
		if err := codec.NewEncoder(&in, ipc.newMsgpackHandle()).Encode(&req); err != nil {
			return VMembersReply{HandlerErr: err}
		}
	}
	c := &IPCClient{
		name:           "verif",
		reader:         bufio.NewReader(&in),
		writer:         bufio.NewWriter(&out),
		eventStreams:   make(map[uint64]*eventStream),
		pendingQueries: make(map[uint64]*serf.Query),
		version:        MaxIPCVersion,
	}
	c.dec = codec.NewDecoder(c.reader, ipc.newMsgpackHandle())
	c.enc = codec.NewEncoder(c.writer, ipc.newMsgpackHandle())
	var r VMembersReply
	r.HandlerErr = ipc.handleRequest(c, &requestHeader{Command: command, Seq: seq})
	r.ReplyBytes = out.Len()
	dec := codec.NewDecoder(&out, ipc.newMsgpackHandle())
	var h responseHeader
	if dec.Decode(&h) != nil {
		return r
	}
	r.HasHeader, r.Seq, r.HeaderErr = true, h.Seq, h.Error
	var body membersResponse
	if dec.Decode(&body) == nil {
		r.HasBody, r.Members = true, body.Members
	}
	return r
}
