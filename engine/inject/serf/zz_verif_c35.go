package serf

// VKRandomMembers calls the member selection used for query-reply relays.
func VKRandomMembers(k int, members []Member, filter func(Member) bool) []Member {
	return kRandomMembers(k, members, filter)
}
