package serf

// Verification overlay only (C17, C18): access to the unexported event
// coalescers, constructed exactly as serf.Create constructs them
// (serf.go:285-304), and to the real coalescedEventCh/coalesceLoop.

import "time"

// VCoalescer is the unexported coalescer interface (Handle/Coalesce/Flush).
type VCoalescer = coalescer

func VNewMemberCoalescer() VCoalescer {
	return &memberEventCoalescer{
		lastEvents:   make(map[string]EventType),
		latestEvents: make(map[string]coalesceEvent),
	}
}

func VNewUserCoalescer() VCoalescer {
	return &userEventCoalescer{
		events: make(map[string]*latestUserEvents),
	}
}

// VCoalescedEventCh starts the real coalesceLoop (call inside a vsched run).
func VCoalescedEventCh(outCh chan<- Event, shutdownCh <-chan struct{}, cPeriod, qPeriod time.Duration, c VCoalescer) chan<- Event {
	return coalescedEventCh(outCh, shutdownCh, cPeriod, qPeriod, c)
}
