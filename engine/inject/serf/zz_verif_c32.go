package serf

// Verification overlay only (see zz_verif_export.go): codec accessors for C32/C33.

import "net"

// VEncodeFmt is encodeMessage with the sender's time-format flag.
func VEncodeFmt(t uint8, msg interface{}, newTime bool) ([]byte, error) {
	return encodeMessage(messageType(t), msg, newTime)
}

// VEncodeRelay is encodeRelayMessage.
func VEncodeRelay(t uint8, addr net.UDPAddr, name string, msg interface{}) ([]byte, error) {
	return encodeRelayMessage(messageType(t), addr, name, msg)
}

// VQueryID returns the private identifier of a delivered query.
func VQueryID(q *Query) uint32 { return q.id }
