package serf

// This file exists only in the verification overlay (it is mounted by
// `go build -overlay`, never written into /repo). It exports the message types
// and a dump of the private state for the harnesses in /verif.

import (
	"sort"
	time "github.com/hashicorp/serf/zzverif/vtime"
)

type (
	VMessageJoin          = messageJoin
	VMessageLeave         = messageLeave
	VMessagePushPull      = messagePushPull
	VMessageUserEvent     = messageUserEvent
	VMessageQuery         = messageQuery
	VMessageQueryResponse = messageQueryResponse
	VUserEvents           = userEvents
	VUserEvent            = userEvent
	VRelayHeader          = relayHeader
	VFilterTag            = filterTag
	VFilterNode           = filterNode
	VNodeKeyResponse      = nodeKeyResponse
	VKeyRequest           = keyRequest
)

const (
	VMsgLeave            = uint8(messageLeaveType)
	VMsgJoin             = uint8(messageJoinType)
	VMsgPushPull         = uint8(messagePushPullType)
	VMsgUserEvent        = uint8(messageUserEventType)
	VMsgQuery            = uint8(messageQueryType)
	VMsgQueryResponse    = uint8(messageQueryResponseType)
	VMsgConflictResponse = uint8(messageConflictResponseType)
	VMsgKeyRequest       = uint8(messageKeyRequestType)
	VMsgKeyResponse      = uint8(messageKeyResponseType)
	VMsgRelay            = uint8(messageRelayType)

	VQueryFlagAck         = queryFlagAck
	VQueryFlagNoBroadcast = queryFlagNoBroadcast
	VFilterNodeType       = uint8(filterNodeType)
	VFilterTagType        = uint8(filterTagType)
	VTagMagicByte         = tagMagicByte
)

func VEncode(t uint8, msg interface{}) []byte {
	b, err := encodeMessage(messageType(t), msg, false)
	if err != nil {
		panic(err)
	}
	return b
}

func VDecode(buf []byte, out interface{}) error { return decodeMessage(buf, out) }

func VEncodeFilter(t uint8, f interface{}) []byte {
	b, err := encodeFilter(filterType(t), f)
	if err != nil {
		panic(err)
	}
	return b
}

func VEncodeTags(s *Serf, tags map[string]string) []byte { return s.encodeTags(tags) }
func VDecodeTags(s *Serf, b []byte) map[string]string    { return s.decodeTags(b) }
func VInternalQueryName(n string) string                 { return internalQueryName(n) }

// VMember is one entry of the private member table.
type VMember struct {
	Name        string
	Status      string
	StatusLTime uint64
	LeaveAge    int64 // ns since leaveTime (virtual), -1 if unset
	Addr        string
	Port        uint16
}

type VIntent struct {
	Node  string
	Type  uint8
	LTime uint64
	Age   int64
}

type VEvents struct {
	LTime  uint64
	Events []string
}

type VQueries struct {
	LTime uint64
	IDs   []uint32
}

// VState is a canonical (sorted) copy of the private state.
type VState struct {
	State          string
	Clock          uint64
	EventClock     uint64
	QueryClock     uint64
	EventMinTime   uint64
	QueryMinTime   uint64
	Members        []VMember
	Failed         []string
	Left           []string
	Intents        []VIntent
	EventBuffer    []VEvents
	QueryBuffer    []VQueries
	OpenQueries    []uint64
	IntentQueue    int
	EventQueue     int
	QueryQueue     int
}

// VDump copies the private state. It takes no locks: call it at a quiescent point.
func VDump(s *Serf) *VState {
	now := time.Now()
	st := &VState{
		State:        s.state.String(),
		Clock:        uint64(s.clock.counter.Load()),
		EventClock:   uint64(s.eventClock.counter.Load()),
		QueryClock:   uint64(s.queryClock.counter.Load()),
		EventMinTime: uint64(s.eventMinTime),
		QueryMinTime: uint64(s.queryMinTime),
		IntentQueue:  s.broadcasts.NumQueued(),
		EventQueue:   s.eventBroadcasts.NumQueued(),
		QueryQueue:   s.queryBroadcasts.NumQueued(),
	}
	for _, m := range s.members {
		age := int64(-1)
		if !m.leaveTime.IsZero() {
			age = int64(now.Sub(m.leaveTime))
		}
		st.Members = append(st.Members, VMember{Name: m.Name, Status: m.Status.String(), StatusLTime: uint64(m.statusLTime), LeaveAge: age, Addr: m.Addr.String(), Port: m.Port})
	}
	sort.Slice(st.Members, func(i, j int) bool { return st.Members[i].Name < st.Members[j].Name })
	for _, m := range s.failedMembers {
		st.Failed = append(st.Failed, m.Name)
	}
	for _, m := range s.leftMembers {
		st.Left = append(st.Left, m.Name)
	}
	sort.Strings(st.Failed)
	sort.Strings(st.Left)
	for n, in := range s.recentIntents {
		st.Intents = append(st.Intents, VIntent{Node: n, Type: uint8(in.Type), LTime: uint64(in.LTime), Age: int64(now.Sub(in.WallTime))})
	}
	sort.Slice(st.Intents, func(i, j int) bool { return st.Intents[i].Node < st.Intents[j].Node })
	for _, e := range s.eventBuffer {
		if e == nil {
			continue
		}
		ve := VEvents{LTime: uint64(e.LTime)}
		for _, x := range e.Events {
			ve.Events = append(ve.Events, x.Name+"\x00"+string(x.Payload))
		}
		st.EventBuffer = append(st.EventBuffer, ve)
	}
	sort.Slice(st.EventBuffer, func(i, j int) bool { return st.EventBuffer[i].LTime < st.EventBuffer[j].LTime })
	for _, q := range s.queryBuffer {
		if q == nil {
			continue
		}
		st.QueryBuffer = append(st.QueryBuffer, VQueries{LTime: uint64(q.LTime), IDs: append([]uint32{}, q.QueryIDs...)})
	}
	sort.Slice(st.QueryBuffer, func(i, j int) bool { return st.QueryBuffer[i].LTime < st.QueryBuffer[j].LTime })
	for lt := range s.queryResponse {
		st.OpenQueries = append(st.OpenQueries, uint64(lt))
	}
	sort.Slice(st.OpenQueries, func(i, j int) bool { return st.OpenQueries[i] < st.OpenQueries[j] })
	return st
}

// VQueryInfo returns the Lamport time and id of an open query.
func VQueryInfo(r *QueryResponse) (uint64, uint32) { return uint64(r.lTime), r.id }
