package serf

// Verification overlay only: access to the coordinate client behind the ping
// delegate (check C20).

import "github.com/hashicorp/serf/coordinate"

func VCoordClient(s *Serf) *coordinate.Client { return s.coordClient }
