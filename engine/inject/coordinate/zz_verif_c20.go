package coordinate

// Verification overlay only (mounted by `go build -overlay`, never written into
// the repository). Canonical dump of a Client's private state for check C20.

import (
	"math"
	"sort"
	"strconv"
)

func vbits(b []byte, tag string, fs ...float64) []byte {
	b = append(b, tag...)
	for _, f := range fs {
		b = strconv.AppendUint(b, math.Float64bits(f), 16)
		b = append(b, ',')
	}
	return append(b, '|')
}

// VClientState renders everything an observation may change: the coordinate,
// the adjustment window, the per-node latency filters and the statistics.
// It takes no lock: call it between operations.
func VClientState(c *Client) string {
	b := make([]byte, 0, 1536)
	co := c.coord
	b = vbits(b, "vec=", co.Vec...)
	b = vbits(b, "err/adj/height=", co.Error, co.Adjustment, co.Height)
	b = vbits(b, "origin=", c.origin.Vec...)
	b = vbits(b, "origin err/adj/height=", c.origin.Error, c.origin.Adjustment, c.origin.Height)
	b = append(b, "adjIndex="...)
	b = strconv.AppendUint(b, uint64(c.adjustmentIndex), 10)
	b = vbits(b, " adjSamples=", c.adjustmentSamples...)
	nodes := make([]string, 0, 4)
	for n := range c.latencyFilterSamples {
		nodes = append(nodes, n)
	}
	sort.Strings(nodes)
	for _, n := range nodes {
		b = append(b, "filter["...)
		b = strconv.AppendQuote(b, n)
		b = vbits(b, "]=", c.latencyFilterSamples[n]...)
	}
	b = append(b, "resets="...)
	b = strconv.AppendInt(b, int64(c.stats.Resets), 10)
	return string(b)
}
