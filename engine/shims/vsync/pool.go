package vsync

import realsync "sync" // the real package: the pool itself is not a scheduling point

// Pool replaces sync.Pool with its most adversarial legal behaviour: Get hands back the object
// that was Put most recently whenever there is one (a real Pool may do so at any time, and does
// so almost always on one P between two garbage collections). An object that is put back without
// having been reset is therefore seen by the very next user, deterministically; New is still
// exercised by every Get on an empty pool.
type Pool struct {
	New func() any

	mu    realsync.Mutex
	items []any
}

func (p *Pool) Get() any {
	p.mu.Lock()
	if n := len(p.items); n > 0 {
		x := p.items[n-1]
		p.items = p.items[:n-1]
		p.mu.Unlock()
		return x
	}
	p.mu.Unlock()
	if p.New != nil {
		return p.New()
	}
	return nil
}

func (p *Pool) Put(x any) {
	if x == nil {
		return
	}
	p.mu.Lock()
	p.items = append(p.items, x)
	p.mu.Unlock()
}
