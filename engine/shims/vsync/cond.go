package vsync

import (
	"sync"

	"github.com/hashicorp/serf/zzverif/vsched"
)

// Cond mirrors sync.Cond. Under the scheduler Wait releases L, blocks at a
// scheduling point until a Signal/Broadcast issued after the Wait began has
// selected it, and re-acquires L.
type Cond struct {
	L Locker

	real    *sync.Cond
	waiters []*condWaiter
}

type condWaiter struct{ woken bool }

func NewCond(l Locker) *Cond { return &Cond{L: l, real: sync.NewCond(l)} }

func (c *Cond) Wait() {
	if vsched.Killing() {
		return
	}
	if !vsched.Active() {
		c.real.Wait()
		return
	}
	w := &condWaiter{}
	c.waiters = append(c.waiters, w)
	c.L.Unlock()
	vsched.Point(vsched.KLock, "Cond.Wait", func() bool { return w.woken })
	c.L.Lock()
}

func (c *Cond) Signal() {
	if vsched.Killing() {
		return
	}
	if !vsched.Active() {
		c.real.Signal()
		return
	}
	if len(c.waiters) > 0 {
		c.waiters[0].woken = true
		c.waiters = c.waiters[1:]
	}
}

func (c *Cond) Broadcast() {
	if vsched.Killing() {
		return
	}
	if !vsched.Active() {
		c.real.Broadcast()
		return
	}
	for _, w := range c.waiters {
		w.woken = true
	}
	c.waiters = nil
}
