// Package vsync replaces "sync" in instrumented code. Under the scheduler a lock
// operation is a scheduling point that is enabled only when the lock is free, so a
// blocked thread is visible to the scheduler instead of blocking the process.
package vsync

import (
	"sync"

	"github.com/hashicorp/serf/zzverif/vsched"
)

type Locker = sync.Locker
type Map = sync.Map

// Mutex mirrors sync.Mutex.
type Mutex struct {
	real sync.Mutex
	held bool
}

func (m *Mutex) Lock() {
	if vsched.Killing() {
		return
	}
	if !vsched.Active() {
		m.real.Lock()
		return
	}
	vsched.Point(vsched.KLock, "Mutex.Lock", func() bool { return !m.held })
	if vsched.Killing() {
		return
	}
	m.held = true
}

func (m *Mutex) TryLock() bool {
	if vsched.Killing() {
		return true
	}
	if !vsched.Active() {
		return m.real.TryLock()
	}
	vsched.Point(vsched.KLock, "Mutex.TryLock", nil)
	if m.held {
		return false
	}
	m.held = true
	return true
}

func (m *Mutex) Unlock() {
	if vsched.Killing() {
		return
	}
	if !vsched.Active() {
		m.real.Unlock()
		return
	}
	if !m.held {
		panic("sync: unlock of unlocked mutex")
	}
	m.held = false
}

// RWMutex mirrors sync.RWMutex (without writer preference; see DESIGN.md §2.2).
type RWMutex struct {
	real    sync.RWMutex
	writer  bool
	readers int
}

func (m *RWMutex) Lock() {
	if vsched.Killing() {
		return
	}
	if !vsched.Active() {
		m.real.Lock()
		return
	}
	vsched.Point(vsched.KLock, "RWMutex.Lock", func() bool { return !m.writer && m.readers == 0 })
	if vsched.Killing() {
		return
	}
	m.writer = true
}

func (m *RWMutex) Unlock() {
	if vsched.Killing() {
		return
	}
	if !vsched.Active() {
		m.real.Unlock()
		return
	}
	if !m.writer {
		panic("sync: Unlock of unlocked RWMutex")
	}
	m.writer = false
}

func (m *RWMutex) RLock() {
	if vsched.Killing() {
		return
	}
	if !vsched.Active() {
		m.real.RLock()
		return
	}
	vsched.Point(vsched.KLock, "RWMutex.RLock", func() bool { return !m.writer })
	if vsched.Killing() {
		return
	}
	m.readers++
}

func (m *RWMutex) RUnlock() {
	if vsched.Killing() {
		return
	}
	if !vsched.Active() {
		m.real.RUnlock()
		return
	}
	if m.readers <= 0 {
		panic("sync: RUnlock of unlocked RWMutex")
	}
	m.readers--
}

func (m *RWMutex) RLocker() Locker { return (*rlocker)(m) }

type rlocker RWMutex

func (r *rlocker) Lock()   { (*RWMutex)(r).RLock() }
func (r *rlocker) Unlock() { (*RWMutex)(r).RUnlock() }

// WaitGroup mirrors sync.WaitGroup.
type WaitGroup struct {
	real sync.WaitGroup
	n    int
}

func (w *WaitGroup) Add(d int) {
	if vsched.Killing() {
		return
	}
	if !vsched.Active() {
		w.real.Add(d)
		return
	}
	w.n += d
	if w.n < 0 {
		panic("sync: negative WaitGroup counter")
	}
}

func (w *WaitGroup) Done() { w.Add(-1) }

func (w *WaitGroup) Wait() {
	if vsched.Killing() {
		return
	}
	if !vsched.Active() {
		w.real.Wait()
		return
	}
	vsched.Point(vsched.KJoin, "WaitGroup.Wait", func() bool { return w.n == 0 })
}

// Once mirrors sync.Once.
type Once struct {
	m    Mutex
	done bool
}

func (o *Once) Do(f func()) {
	if o.done {
		return
	}
	o.m.Lock()
	defer o.m.Unlock()
	if !o.done {
		defer func() { o.done = true }()
		f()
	}
}
