// Package vchan carries the channel operations of instrumented code. Real
// channels remain the data store; blocking and the choice among ready select
// cases move into the scheduler. Unbuffered channels use a rendezvous table
// (a sender completes the parked receiver's operation directly).
package vchan

import (
	"reflect"
	"runtime"

	"github.com/hashicorp/serf/zzverif/vsched"
)

type waiter struct {
	tid      int
	filled   bool
	val      interface{}
	idx      map[uintptr]int // channel -> select case index (0 for plain receive)
	chosen   int
	chosenCh uintptr
}

type state struct {
	recvWaiters map[uintptr][]*waiter
	closed      map[uintptr]bool
}

func st() *state {
	if v := vsched.Local("vchan"); v != nil {
		return v.(*state)
	}
	s := &state{recvWaiters: map[uintptr][]*waiter{}, closed: map[uintptr]bool{}}
	vsched.SetLocal("vchan", s)
	return s
}

func chanID(ch interface{}) uintptr { return reflect.ValueOf(ch).Pointer() }

func (s *state) addWaiter(w *waiter) {
	for id := range w.idx {
		s.recvWaiters[id] = append(s.recvWaiters[id], w)
	}
}

func (s *state) removeWaiter(w *waiter) {
	for id := range w.idx {
		l := s.recvWaiters[id]
		for i, x := range l {
			if x == w {
				l = append(l[:i:i], l[i+1:]...)
				break
			}
		}
		if len(l) == 0 {
			delete(s.recvWaiters, id)
		} else {
			s.recvWaiters[id] = l
		}
	}
}

func (s *state) firstWaiter(id uintptr, self int) *waiter {
	for _, w := range s.recvWaiters[id] {
		if !w.filled && w.tid != self {
			return w
		}
	}
	return nil
}

func (s *state) handOff(id uintptr, self int, v interface{}) {
	w := s.firstWaiter(id, self)
	w.filled = true
	w.val = v
	w.chosen = w.idx[id]
	w.chosenCh = id
	s.removeWaiter(w)
}

// closedNB reports whether an empty channel is closed, without consuming anything.
func closedNB[T any](ch <-chan T) bool {
	select {
	case _, ok := <-ch:
		if ok {
			panic("vchan: value appeared on a channel believed empty (uncontrolled sender)")
		}
		return true
	default:
		return false
	}
}

// Recv is `<-ch`.
func Recv[T any](ch <-chan T) T {
	v, _ := Recv2(ch)
	return v
}

// Recv2 is `v, ok := <-ch`.
func Recv2[T any](ch <-chan T) (T, bool) {
	var zero T
	if vsched.Killing() {
		return zero, false
	}
	if !vsched.Active() {
		v, ok := <-ch
		return v, ok
	}
	if ch == nil {
		vsched.Block("recv on nil channel")
		return zero, false
	}
	if cap(ch) > 0 {
		vsched.Point(vsched.KChan, "recv", func() bool { return len(ch) > 0 || closedNB(ch) })
		if vsched.Killing() {
			return zero, false
		}
		v, ok := <-ch
		return v, ok
	}
	s := st()
	id := chanID(ch)
	w := &waiter{tid: vsched.ThreadID(), idx: map[uintptr]int{id: 0}}
	s.addWaiter(w)
	vsched.Point(vsched.KChan, "recv(unbuffered)", func() bool { return w.filled || closedNB(ch) })
	if vsched.Killing() {
		return zero, false
	}
	if w.filled {
		if w.val == nil {
			return zero, true
		}
		return w.val.(T), true
	}
	s.removeWaiter(w)
	return zero, false
}

// SendTo is `ch <- v`, written vchan.SendTo(ch)(v) so that T is inferred from the channel.
func SendTo[T any](ch chan<- T) func(T) {
	return func(v T) { send(ch, v) }
}

func send[T any](ch chan<- T, v T) {
	if vsched.Killing() {
		return
	}
	if !vsched.Active() {
		ch <- v
		return
	}
	if ch == nil {
		vsched.Block("send on nil channel")
		return
	}
	s := st()
	id := chanID(ch)
	if cap(ch) > 0 {
		vsched.Point(vsched.KChan, "send", func() bool { return len(ch) < cap(ch) || s.closed[id] })
		if vsched.Killing() {
			return
		}
		ch <- v // panics if closed, as the real operation would
		return
	}
	self := vsched.ThreadID()
	vsched.Point(vsched.KChan, "send(unbuffered)", func() bool { return s.closed[id] || s.firstWaiter(id, self) != nil })
	if vsched.Killing() {
		return
	}
	if s.closed[id] {
		panic("send on closed channel")
	}
	s.handOff(id, self, v)
}

// Close is `close(ch)`.
func Close[T any](ch chan<- T) {
	if vsched.Killing() {
		return
	}
	if vsched.Active() {
		if ch != nil {
			st().closed[chanID(ch)] = true
		}
	}
	close(ch)
}

type selCase struct {
	send    bool
	isNil   bool
	unbuf   bool
	id      uintptr
	ready   func() bool
	fire    func()
	deliver func(v interface{}, ok bool)
	ch      interface{}
	sendVal interface{}
	elem    reflect.Type
}

// Sel is one rewritten select statement.
type Sel struct {
	cases      []selCase
	hasDefault bool
	defaultIdx int
	n          int
}

func NewSelect() *Sel { return &Sel{defaultIdx: -1} }

// RecvCase holds the value received by a select case.
type RecvCase[T any] struct {
	v  T
	ok bool
}

func (r *RecvCase[T]) Val() T          { return r.v }
func (r *RecvCase[T]) Val2() (T, bool) { return r.v, r.ok }

// CaseRecv registers `case v := <-ch`.
func CaseRecv[T any](s *Sel, ch <-chan T) *RecvCase[T] {
	rc := &RecvCase[T]{}
	c := selCase{ch: ch}
	if ch == nil {
		c.isNil = true
	} else {
		c.id = chanID(ch)
		c.unbuf = cap(ch) == 0
		c.ready = func() bool { return len(ch) > 0 || closedNB(ch) }
		c.fire = func() { rc.v, rc.ok = <-ch }
		c.deliver = func(v interface{}, ok bool) {
			if v != nil {
				rc.v = v.(T)
			}
			rc.ok = ok
		}
	}
	s.cases = append(s.cases, c)
	s.n++
	return rc
}

// CaseSend registers `case ch <- v`, written vchan.CaseSend(sel, ch)(v).
func CaseSend[T any](s *Sel, ch chan<- T) func(T) {
	return func(v T) {
		c := selCase{send: true, ch: ch, sendVal: v}
		if ch == nil {
			c.isNil = true
		} else {
			id := chanID(ch)
			c.id = id
			c.unbuf = cap(ch) == 0
			self := vsched.ThreadID()
			if !c.unbuf {
				c.ready = func() bool { return len(ch) < cap(ch) || (vsched.Active() && st().closed[id]) }
				c.fire = func() { ch <- v }
			} else {
				c.ready = func() bool {
					s := st()
					return s.closed[id] || s.firstWaiter(id, self) != nil
				}
				c.fire = func() {
					s := st()
					if s.closed[id] {
						panic("send on closed channel")
					}
					s.handOff(id, self, v)
				}
			}
			c.elem = reflect.TypeOf(ch).Elem()
		}
		s.cases = append(s.cases, c)
		s.n++
	}
}

// Default registers the default case.
func (s *Sel) Default() {
	s.hasDefault = true
	s.defaultIdx = s.n
	s.n++
}

// caseNumber maps an index in s.cases to the number used in the generated switch
// (cases and default are numbered in source order).
func (s *Sel) caseNumber(i int) int {
	if s.hasDefault && i >= s.defaultIdx {
		return i + 1
	}
	return i
}

// Wait blocks until a case can proceed, performs it and returns its number.
func (s *Sel) Wait() int {
	if vsched.Killing() {
		if s.hasDefault {
			return s.defaultIdx
		}
		return -1
	}
	if !vsched.Active() {
		return s.waitReal()
	}
	if len(s.cases) == 0 && !s.hasDefault {
		vsched.Block("select{}")
		return -1
	}
	var w *waiter
	for i, c := range s.cases {
		if !c.isNil && !c.send && c.unbuf {
			if w == nil {
				w = &waiter{tid: vsched.ThreadID(), idx: map[uintptr]int{}}
			}
			if _, dup := w.idx[c.id]; !dup {
				w.idx[c.id] = i
			}
		}
	}
	state := st()
	if w != nil {
		state.addWaiter(w)
	}
	anyReady := func() bool {
		if w != nil && w.filled {
			return true
		}
		for _, c := range s.cases {
			if !c.isNil && c.ready() {
				return true
			}
		}
		return s.hasDefault
	}
	vsched.Point(vsched.KSelect, "select", anyReady)
	if vsched.Killing() {
		if s.hasDefault {
			return s.defaultIdx
		}
		return -1
	}
	if w != nil && w.filled {
		s.cases[w.chosen].deliver(w.val, true)
		return s.caseNumber(w.chosen)
	}
	if w != nil {
		state.removeWaiter(w)
	}
	var ready []int
	for i, c := range s.cases {
		if !c.isNil && c.ready() {
			ready = append(ready, i)
		}
	}
	if len(ready) == 0 {
		return s.defaultIdx
	}
	pick := ready[0]
	if len(ready) > 1 {
		pick = ready[vsched.Choose(len(ready), "select-case")]
	}
	s.cases[pick].fire()
	return s.caseNumber(pick)
}

func (s *Sel) waitReal() int {
	rc := make([]reflect.SelectCase, 0, len(s.cases)+1)
	for _, c := range s.cases {
		if c.isNil {
			rc = append(rc, reflect.SelectCase{Dir: reflect.SelectRecv})
			continue
		}
		if c.send {
			v := reflect.ValueOf(c.sendVal)
			if !v.IsValid() {
				v = reflect.Zero(c.elem)
			} else if v.Type() != c.elem {
				nv := reflect.New(c.elem).Elem()
				nv.Set(v)
				v = nv
			}
			rc = append(rc, reflect.SelectCase{Dir: reflect.SelectSend, Chan: reflect.ValueOf(c.ch), Send: v})
		} else {
			rc = append(rc, reflect.SelectCase{Dir: reflect.SelectRecv, Chan: reflect.ValueOf(c.ch)})
		}
	}
	if s.hasDefault {
		rc = append(rc, reflect.SelectCase{Dir: reflect.SelectDefault})
	}
	i, v, ok := reflect.Select(rc)
	if s.hasDefault && i == len(s.cases) {
		return s.defaultIdx
	}
	c := s.cases[i]
	if !c.send {
		var iv interface{}
		if v.IsValid() {
			iv = v.Interface()
		}
		c.deliver(iv, ok)
	}
	return s.caseNumber(i)
}

// BadSelect is the argument of the panic in the generated default clause of a
// rewritten select (it keeps the switch a terminating statement). It is only
// reached during tear-down, where the thread simply exits.
func BadSelect() string {
	if vsched.Killing() || vsched.InRun() {
		runtime.Goexit()
	}
	return "vchan: select returned an unknown case"
}
