// Package vnet replaces "net" in the RPC client package. When the harness has
// installed a dial hook the client gets an in-memory connection whose Read is a
// blocking point of the controlled scheduler; otherwise it wraps a real TCP
// connection.
package vnet

import (
	"errors"
	"io"
	"net"
	"time"

	"github.com/hashicorp/serf/zzverif/vsched"
)

type IP = net.IP
type Conn = net.Conn
type Addr = net.Addr

// OnDial, if set, answers DialTimeout.
var OnDial func(network, addr string) (*TCPConn, error)

// half is one direction of a pipe.
type half struct {
	buf    []byte
	closed bool
}

// Pipe is an in-memory duplex connection.
type Pipe struct {
	c2s, s2c half
	Client   *TCPConn
	// Written counts client writes (requests flushed).
	Written int
}

// NewPipe creates a connection pair; Client is handed to the code under test.
func NewPipe() *Pipe {
	p := &Pipe{}
	p.Client = &TCPConn{pipe: p}
	return p
}

// Feed makes bytes available to the client's reader.
func (p *Pipe) Feed(b []byte) { p.s2c.buf = append(p.s2c.buf, b...) }

// CloseServer ends the server->client direction (the client reads EOF).
func (p *Pipe) CloseServer() { p.s2c.closed = true }

// ClientBytes returns what the client has written so far and not yet been taken.
func (p *Pipe) ClientBytes() []byte { return p.c2s.buf }

// Consume drops n bytes of client output.
func (p *Pipe) Consume(n int) { p.c2s.buf = p.c2s.buf[n:] }

// ClientClosed reports whether the client closed its end.
func (p *Pipe) ClientClosed() bool { return p.c2s.closed }

// ServerReader returns a reader over the client's output that blocks in the scheduler.
func (p *Pipe) ServerReader() io.Reader { return serverReader{p} }

type serverReader struct{ p *Pipe }

func (r serverReader) Read(b []byte) (int, error) {
	h := &r.p.c2s
	vsched.Point(vsched.KIO, "server-read", func() bool { return len(h.buf) > 0 || h.closed })
	if vsched.Killing() {
		return 0, io.EOF
	}
	if len(h.buf) == 0 {
		return 0, io.EOF
	}
	n := copy(b, h.buf)
	h.buf = h.buf[n:]
	return n, nil
}

// TCPConn stands in for *net.TCPConn in the client.
type TCPConn struct {
	real *net.TCPConn
	pipe *Pipe
}

func DialTimeout(network, addr string, timeout time.Duration) (net.Conn, error) {
	if OnDial != nil {
		c, err := OnDial(network, addr)
		if err != nil {
			return nil, err
		}
		return c, nil
	}
	c, err := net.DialTimeout(network, addr, timeout)
	if err != nil {
		return nil, err
	}
	return &TCPConn{real: c.(*net.TCPConn)}, nil
}

var errClosed = errors.New("use of closed network connection")

func (c *TCPConn) Read(b []byte) (int, error) {
	if c.real != nil {
		return c.real.Read(b)
	}
	h := &c.pipe.s2c
	me := &c.pipe.c2s
	if vsched.Active() {
		vsched.Point(vsched.KIO, "conn-read", func() bool { return len(h.buf) > 0 || h.closed || me.closed })
	}
	if vsched.Killing() {
		return 0, io.EOF
	}
	if me.closed {
		return 0, errClosed
	}
	if len(h.buf) == 0 {
		return 0, io.EOF
	}
	n := copy(b, h.buf)
	h.buf = h.buf[n:]
	return n, nil
}

func (c *TCPConn) Write(b []byte) (int, error) {
	if c.real != nil {
		return c.real.Write(b)
	}
	if c.pipe.c2s.closed {
		return 0, errClosed
	}
	if vsched.Active() {
		vsched.Point(vsched.KIO, "conn-write", nil)
	}
	c.pipe.c2s.buf = append(c.pipe.c2s.buf, b...)
	c.pipe.Written++
	return len(b), nil
}

func (c *TCPConn) Close() error {
	if c.real != nil {
		return c.real.Close()
	}
	if c.pipe.c2s.closed {
		return errClosed
	}
	c.pipe.c2s.closed = true
	return nil
}

func (c *TCPConn) LocalAddr() net.Addr {
	if c.real != nil {
		return c.real.LocalAddr()
	}
	return &net.TCPAddr{IP: net.IPv4(127, 0, 0, 1), Port: 1}
}
func (c *TCPConn) RemoteAddr() net.Addr {
	if c.real != nil {
		return c.real.RemoteAddr()
	}
	return &net.TCPAddr{IP: net.IPv4(127, 0, 0, 1), Port: 7373}
}
func (c *TCPConn) SetDeadline(t time.Time) error {
	if c.real != nil {
		return c.real.SetDeadline(t)
	}
	return nil
}
func (c *TCPConn) SetReadDeadline(t time.Time) error {
	if c.real != nil {
		return c.real.SetReadDeadline(t)
	}
	return nil
}
func (c *TCPConn) SetWriteDeadline(t time.Time) error {
	if c.real != nil {
		return c.real.SetWriteDeadline(t)
	}
	return nil
}
