// Package vtime replaces "time" in instrumented code. Under the scheduler the
// clock is virtual (vsched timers); outside a run everything falls through.
package vtime

import (
	"time"

	"github.com/hashicorp/serf/zzverif/vsched"
)

type Duration = time.Duration
type Time = time.Time
type Month = time.Month
type Weekday = time.Weekday
type Location = time.Location

const (
	Nanosecond  = time.Nanosecond
	Microsecond = time.Microsecond
	Millisecond = time.Millisecond
	Second      = time.Second
	Minute      = time.Minute
	Hour        = time.Hour

	RFC3339     = time.RFC3339
	RFC3339Nano = time.RFC3339Nano
	RFC1123     = time.RFC1123
	Kitchen     = time.Kitchen
	Stamp       = time.Stamp
)

var UTC = time.UTC
var Local = time.Local

func ParseDuration(s string) (Duration, error) { return time.ParseDuration(s) }
func Unix(sec, nsec int64) Time                { return time.Unix(sec, nsec) }
func Date(y int, m Month, d, h, mi, s, ns int, l *Location) Time {
	return time.Date(y, m, d, h, mi, s, ns, l)
}
func Parse(layout, v string) (Time, error) { return time.Parse(layout, v) }

func Now() Time {
	if !vsched.InRun() {
		return time.Now()
	}
	return time.Unix(0, vsched.NowNano()).UTC()
}

func Since(t Time) Duration { return Now().Sub(t) }
func Until(t Time) Duration { return t.Sub(Now()) }

func Sleep(d Duration) {
	if vsched.Killing() {
		return
	}
	if !vsched.Active() {
		time.Sleep(d)
		return
	}
	vsched.Sleep(int64(d), "time.Sleep")
}

func After(d Duration) <-chan Time {
	if !vsched.Active() {
		if vsched.Killing() {
			return make(chan Time)
		}
		return time.After(d)
	}
	ch := make(chan Time, 1)
	vsched.AddTimer(int64(d), 0, "After", func() {
		select {
		case ch <- Now():
		default:
		}
	})
	return ch
}

func Tick(d Duration) <-chan Time { return NewTicker(d).C }

// Timer mirrors time.Timer.
type Timer struct {
	C    <-chan Time
	c    chan Time
	h    vsched.TimerHandle
	real *time.Timer
}

func NewTimer(d Duration) *Timer {
	if !vsched.Active() {
		rt := time.NewTimer(d)
		return &Timer{C: rt.C, real: rt}
	}
	ch := make(chan Time, 1)
	t := &Timer{C: ch, c: ch}
	t.h = vsched.AddTimer(int64(d), 0, "Timer", func() {
		select {
		case ch <- Now():
		default:
		}
	})
	return t
}

func AfterFunc(d Duration, f func()) *Timer {
	if !vsched.Active() {
		if vsched.Killing() {
			return &Timer{}
		}
		return &Timer{real: time.AfterFunc(d, f)}
	}
	t := &Timer{}
	t.h = vsched.AddTimer(int64(d), 0, "AfterFunc", func() {
		vsched.Go("timerfunc", f)
	})
	return t
}

func (t *Timer) Stop() bool {
	if t.real != nil {
		return t.real.Stop()
	}
	if vsched.Killing() || !vsched.InRun() {
		return false
	}
	return t.h.Stop()
}

func (t *Timer) Reset(d Duration) bool {
	if t.real != nil {
		return t.real.Reset(d)
	}
	if vsched.Killing() || !vsched.InRun() {
		return false
	}
	return t.h.Reset(int64(d))
}

// Ticker mirrors time.Ticker.
type Ticker struct {
	C    <-chan Time
	h    vsched.TimerHandle
	real *time.Ticker
}

func NewTicker(d Duration) *Ticker {
	if d <= 0 {
		panic("non-positive interval for NewTicker")
	}
	if !vsched.Active() {
		if vsched.Killing() {
			return &Ticker{C: make(chan Time)}
		}
		rt := time.NewTicker(d)
		return &Ticker{C: rt.C, real: rt}
	}
	ch := make(chan Time, 1)
	t := &Ticker{C: ch}
	t.h = vsched.AddTimer(int64(d), int64(d), "Ticker", func() {
		select {
		case ch <- Now():
		default:
		}
	})
	return t
}

func (t *Ticker) Stop() {
	if t.real != nil {
		t.real.Stop()
		return
	}
	if vsched.Killing() || !vsched.InRun() {
		return
	}
	t.h.Stop()
}

func (t *Ticker) Reset(d Duration) {
	if t.real != nil {
		t.real.Reset(d)
		return
	}
	if vsched.Killing() || !vsched.InRun() {
		return
	}
	t.h.Reset(int64(d))
}
