// Package vos replaces "os" in serf/snapshot.go. When an in-memory file system is
// installed every call is logged together with the directory image after it, and
// a fault plan can make one call fail; otherwise calls go to the real os package.
package vos

import (
	"errors"
	"io"
	"io/fs"
	"os"
	"sort"
	"time"
)

type FileMode = os.FileMode
type FileInfo = os.FileInfo

const (
	O_RDONLY = os.O_RDONLY
	O_WRONLY = os.O_WRONLY
	O_RDWR   = os.O_RDWR
	O_APPEND = os.O_APPEND
	O_CREATE = os.O_CREATE
	O_EXCL   = os.O_EXCL
	O_SYNC   = os.O_SYNC
	O_TRUNC  = os.O_TRUNC
)

var (
	ErrNotExist = os.ErrNotExist
	ErrExist    = os.ErrExist
	Stderr      = os.Stderr
	Stdout      = os.Stdout
)

func IsNotExist(err error) bool { return os.IsNotExist(err) }
func IsExist(err error) bool    { return os.IsExist(err) }

// ErrInjected is the transient fault returned by a planned failure.
var ErrInjected = errors.New("vos: injected I/O error")

// Op is one logged file-system call.
type Op struct {
	Kind  string // open, write, sync, close, remove, rename, read, seek, stat
	Path  string
	Path2 string
	N     int
	Flags int
	Err   string
	// Image is the directory content after the call (only for calls that can
	// change it: open, write, remove, rename); nil means "same as before".
	Image map[string]string
}

// FS is an in-memory directory.
type FS struct {
	files map[string]*inode
	Log   []Op
	// FailAt makes the FailAt-th faultable call (1-based; open, write, sync,
	// close, remove, rename) fail once with ErrInjected. 0 = no fault.
	FailAt    int
	// Blocked: paths at which no file can ever be opened or created (a directory sits there).
	Blocked map[string]bool
	// SlowAt/Slow: the SlowAt-th faultable call (1-based) first runs Slow (typically a virtual sleep).
	SlowAt int
	Slow   func()
	faultable int
	// ShortWrite makes an injected write failure write the first half of the data.
	ShortWrite bool
	Failed     *Op
}

type inode struct {
	data []byte
}

var cur *FS

// Install makes fs the target of all vos calls; nil restores the real os.
func Install(f *FS) { cur = f }

// Installed returns the current in-memory file system, if any.
func Installed() *FS { return cur }

// NewFS returns an empty directory, or one initialised from an image.
func NewFS(image map[string]string) *FS {
	f := &FS{files: map[string]*inode{}}
	for k, v := range image {
		f.files[k] = &inode{data: []byte(v)}
	}
	return f
}

// Image returns a copy of the directory content.
func (f *FS) Image() map[string]string {
	m := make(map[string]string, len(f.files))
	for k, v := range f.files {
		m[k] = string(v.data)
	}
	return m
}

// Paths returns the sorted file names.
func (f *FS) Paths() []string {
	var p []string
	for k := range f.files {
		p = append(p, k)
	}
	sort.Strings(p)
	return p
}

func (f *FS) fault(kind string) bool {
	f.faultable++
	if f.SlowAt != 0 && f.faultable == f.SlowAt && f.Slow != nil {
		f.Slow() // a slow disk: the harness lets virtual time pass inside this call
	}
	return f.FailAt != 0 && f.faultable == f.FailAt
}

// Faultable returns the number of faultable calls seen so far.
func (f *FS) Faultable() int { return f.faultable }

func (f *FS) log(op Op, mutating bool) *Op {
	if mutating {
		op.Image = f.Image()
	}
	f.Log = append(f.Log, op)
	return &f.Log[len(f.Log)-1]
}

// File mirrors the part of *os.File the snapshotter uses.
type File struct {
	real   *os.File
	fs     *FS
	ino    *inode
	path   string
	pos    int64
	app    bool
	closed bool
	rd, wr bool
}

func OpenFile(path string, flag int, perm FileMode) (*File, error) {
	f := cur
	if f == nil {
		r, err := os.OpenFile(path, flag, perm)
		if err != nil {
			return nil, err
		}
		return &File{real: r}, nil
	}
	if f.fault("open") {
		op := f.log(Op{Kind: "open", Path: path, Flags: flag, Err: ErrInjected.Error()}, false)
		f.Failed = op
		return nil, &fs.PathError{Op: "open", Path: path, Err: ErrInjected}
	}
	if f.Blocked[path] {
		// a start state, not an injected fault: something else (a directory) sits at this path
		f.log(Op{Kind: "open", Path: path, Flags: flag, Err: "is a directory"}, false)
		return nil, &fs.PathError{Op: "open", Path: path, Err: errors.New("is a directory")}
	}
	ino, ok := f.files[path]
	mut := false
	if !ok {
		if flag&O_CREATE == 0 {
			f.log(Op{Kind: "open", Path: path, Flags: flag, Err: "not exist"}, false)
			return nil, &fs.PathError{Op: "open", Path: path, Err: ErrNotExist}
		}
		ino = &inode{}
		f.files[path] = ino
		mut = true
	} else if flag&O_TRUNC != 0 {
		ino.data = nil
		mut = true
	}
	f.log(Op{Kind: "open", Path: path, Flags: flag}, mut)
	acc := flag & (O_RDONLY | O_WRONLY | O_RDWR)
	return &File{fs: f, ino: ino, path: path, app: flag&O_APPEND != 0, rd: acc == O_RDONLY || acc == O_RDWR, wr: acc == O_WRONLY || acc == O_RDWR}, nil
}

func Open(path string) (*File, error) { return OpenFile(path, O_RDONLY, 0) }
func Create(path string) (*File, error) {
	return OpenFile(path, O_RDWR|O_CREATE|O_TRUNC, 0o666)
}

func Remove(path string) error {
	f := cur
	if f == nil {
		return os.Remove(path)
	}
	if f.fault("remove") {
		f.Failed = f.log(Op{Kind: "remove", Path: path, Err: ErrInjected.Error()}, false)
		return &fs.PathError{Op: "remove", Path: path, Err: ErrInjected}
	}
	if _, ok := f.files[path]; !ok {
		f.log(Op{Kind: "remove", Path: path, Err: "not exist"}, false)
		return &fs.PathError{Op: "remove", Path: path, Err: ErrNotExist}
	}
	delete(f.files, path)
	f.log(Op{Kind: "remove", Path: path}, true)
	return nil
}

func Rename(from, to string) error {
	f := cur
	if f == nil {
		return os.Rename(from, to)
	}
	if f.fault("rename") {
		f.Failed = f.log(Op{Kind: "rename", Path: from, Path2: to, Err: ErrInjected.Error()}, false)
		return &os.LinkError{Op: "rename", Old: from, New: to, Err: ErrInjected}
	}
	ino, ok := f.files[from]
	if !ok {
		f.log(Op{Kind: "rename", Path: from, Path2: to, Err: "not exist"}, false)
		return &os.LinkError{Op: "rename", Old: from, New: to, Err: ErrNotExist}
	}
	delete(f.files, from)
	f.files[to] = ino
	f.log(Op{Kind: "rename", Path: from, Path2: to}, true)
	return nil
}

func Stat(path string) (FileInfo, error) {
	f := cur
	if f == nil {
		return os.Stat(path)
	}
	ino, ok := f.files[path]
	if !ok {
		return nil, &fs.PathError{Op: "stat", Path: path, Err: ErrNotExist}
	}
	return info{name: path, size: int64(len(ino.data))}, nil
}

func ReadFile(path string) ([]byte, error) {
	f := cur
	if f == nil {
		return os.ReadFile(path)
	}
	ino, ok := f.files[path]
	if !ok {
		return nil, &fs.PathError{Op: "open", Path: path, Err: ErrNotExist}
	}
	return append([]byte{}, ino.data...), nil
}

type info struct {
	name string
	size int64
}

func (i info) Name() string       { return i.name }
func (i info) Size() int64        { return i.size }
func (i info) Mode() FileMode     { return 0o644 }
func (i info) ModTime() time.Time { return time.Time{} }
func (i info) IsDir() bool        { return false }
func (i info) Sys() interface{}   { return nil }

func (h *File) Name() string {
	if h.real != nil {
		return h.real.Name()
	}
	return h.path
}

func (h *File) Write(p []byte) (int, error) {
	if h == nil {
		return 0, os.ErrInvalid
	}
	if h.real != nil {
		return h.real.Write(p)
	}
	f := h.fs
	if h.closed {
		f.log(Op{Kind: "write", Path: h.path, Err: "closed"}, false)
		return 0, os.ErrClosed
	}
	if !h.wr {
		return 0, &fs.PathError{Op: "write", Path: h.path, Err: errors.New("bad file descriptor")}
	}
	if f.fault("write") {
		n := 0
		if f.ShortWrite {
			n = len(p) / 2
			h.put(p[:n])
		}
		f.Failed = f.log(Op{Kind: "write", Path: h.path, N: n, Err: ErrInjected.Error()}, n > 0)
		return n, &fs.PathError{Op: "write", Path: h.path, Err: ErrInjected}
	}
	h.put(p)
	f.log(Op{Kind: "write", Path: h.path, N: len(p)}, true)
	return len(p), nil
}

func (h *File) put(p []byte) {
	if h.app {
		h.pos = int64(len(h.ino.data))
	}
	end := h.pos + int64(len(p))
	if int64(len(h.ino.data)) < end {
		nd := make([]byte, end)
		copy(nd, h.ino.data)
		h.ino.data = nd
	}
	copy(h.ino.data[h.pos:], p)
	h.pos = end
}

func (h *File) WriteString(s string) (int, error) { return h.Write([]byte(s)) }

func (h *File) Read(p []byte) (int, error) {
	if h == nil {
		return 0, os.ErrInvalid
	}
	if h.real != nil {
		return h.real.Read(p)
	}
	if h.closed {
		return 0, os.ErrClosed
	}
	if h.pos >= int64(len(h.ino.data)) {
		return 0, io.EOF
	}
	n := copy(p, h.ino.data[h.pos:])
	h.pos += int64(n)
	return n, nil
}

func (h *File) Seek(off int64, whence int) (int64, error) {
	if h == nil {
		return 0, os.ErrInvalid
	}
	if h.real != nil {
		return h.real.Seek(off, whence)
	}
	if h.closed {
		return 0, os.ErrClosed
	}
	switch whence {
	case io.SeekStart:
		h.pos = off
	case io.SeekCurrent:
		h.pos += off
	case io.SeekEnd:
		h.pos = int64(len(h.ino.data)) + off
	}
	return h.pos, nil
}

func (h *File) Stat() (FileInfo, error) {
	if h == nil {
		return nil, os.ErrInvalid
	}
	if h.real != nil {
		return h.real.Stat()
	}
	if h.closed {
		return nil, os.ErrClosed
	}
	return info{name: h.path, size: int64(len(h.ino.data))}, nil
}

func (h *File) Sync() error {
	if h == nil {
		return os.ErrInvalid
	}
	if h.real != nil {
		return h.real.Sync()
	}
	f := h.fs
	if h.closed {
		f.log(Op{Kind: "sync", Path: h.path, Err: "closed"}, false)
		return os.ErrClosed
	}
	if f.fault("sync") {
		f.Failed = f.log(Op{Kind: "sync", Path: h.path, Err: ErrInjected.Error()}, false)
		return &fs.PathError{Op: "sync", Path: h.path, Err: ErrInjected}
	}
	f.log(Op{Kind: "sync", Path: h.path}, false)
	return nil
}

func (h *File) Close() error {
	if h == nil {
		return os.ErrInvalid
	}
	if h.real != nil {
		return h.real.Close()
	}
	f := h.fs
	if h.closed {
		f.log(Op{Kind: "close", Path: h.path, Err: "closed"}, false)
		return os.ErrClosed
	}
	h.closed = true
	if f.fault("close") {
		f.Failed = f.log(Op{Kind: "close", Path: h.path, Err: ErrInjected.Error()}, false)
		return &fs.PathError{Op: "close", Path: h.path, Err: ErrInjected}
	}
	f.log(Op{Kind: "close", Path: h.path}, false)
	return nil
}
