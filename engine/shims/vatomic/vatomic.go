// Package vatomic replaces "sync/atomic" in instrumented code: every operation is
// preceded by a scheduling point, the operation itself is the real one.
package vatomic

import (
	"sync/atomic"

	"github.com/hashicorp/serf/zzverif/vsched"
)

func pt(where string) {
	if vsched.Active() && vsched.AtomicPointsOn() {
		vsched.Point(vsched.KAtomic, where, nil)
	}
}

// Width, when non-zero, truncates Uint64 arithmetic to that many bits
// (width-reduced exhaustive checks of the Lamport clock).
var Width uint

func trunc(v uint64) uint64 {
	if Width == 0 || Width >= 64 {
		return v
	}
	return v & (1<<Width - 1)
}

type Uint64 struct{ v atomic.Uint64 }

func (x *Uint64) Load() uint64   { pt("Uint64.Load"); return x.v.Load() }
func (x *Uint64) Store(v uint64) { pt("Uint64.Store"); x.v.Store(trunc(v)) }
func (x *Uint64) Add(d uint64) uint64 {
	pt("Uint64.Add")
	if Width == 0 {
		return x.v.Add(d)
	}
	for {
		o := x.v.Load()
		n := trunc(o + d)
		if x.v.CompareAndSwap(o, n) {
			return n
		}
	}
}
func (x *Uint64) Swap(v uint64) uint64 { pt("Uint64.Swap"); return x.v.Swap(trunc(v)) }
func (x *Uint64) CompareAndSwap(o, n uint64) bool {
	pt("Uint64.CompareAndSwap")
	return x.v.CompareAndSwap(o, trunc(n))
}

type Uint32 struct{ v atomic.Uint32 }

func (x *Uint32) Load() uint32         { pt("Uint32.Load"); return x.v.Load() }
func (x *Uint32) Store(v uint32)       { pt("Uint32.Store"); x.v.Store(v) }
func (x *Uint32) Add(d uint32) uint32  { pt("Uint32.Add"); return x.v.Add(d) }
func (x *Uint32) Swap(v uint32) uint32 { pt("Uint32.Swap"); return x.v.Swap(v) }
func (x *Uint32) CompareAndSwap(o, n uint32) bool {
	pt("Uint32.CompareAndSwap")
	return x.v.CompareAndSwap(o, n)
}

type Int32 struct{ v atomic.Int32 }

func (x *Int32) Load() int32       { pt("Int32.Load"); return x.v.Load() }
func (x *Int32) Store(v int32)     { pt("Int32.Store"); x.v.Store(v) }
func (x *Int32) Add(d int32) int32 { pt("Int32.Add"); return x.v.Add(d) }
func (x *Int32) CompareAndSwap(o, n int32) bool {
	pt("Int32.CompareAndSwap")
	return x.v.CompareAndSwap(o, n)
}

type Int64 struct{ v atomic.Int64 }

func (x *Int64) Load() int64       { pt("Int64.Load"); return x.v.Load() }
func (x *Int64) Store(v int64)     { pt("Int64.Store"); x.v.Store(v) }
func (x *Int64) Add(d int64) int64 { pt("Int64.Add"); return x.v.Add(d) }
func (x *Int64) CompareAndSwap(o, n int64) bool {
	pt("Int64.CompareAndSwap")
	return x.v.CompareAndSwap(o, n)
}

type Bool struct{ v atomic.Bool }

func (x *Bool) Load() bool       { pt("Bool.Load"); return x.v.Load() }
func (x *Bool) Store(v bool)     { pt("Bool.Store"); x.v.Store(v) }
func (x *Bool) Swap(v bool) bool { pt("Bool.Swap"); return x.v.Swap(v) }
func (x *Bool) CompareAndSwap(o, n bool) bool {
	pt("Bool.CompareAndSwap")
	return x.v.CompareAndSwap(o, n)
}

type Value struct{ v atomic.Value }

func (x *Value) Load() interface{}   { pt("Value.Load"); return x.v.Load() }
func (x *Value) Store(v interface{}) { pt("Value.Store"); x.v.Store(v) }

func AddUint64(p *uint64, d uint64) uint64 { pt("AddUint64"); return atomic.AddUint64(p, d) }
func LoadUint64(p *uint64) uint64          { pt("LoadUint64"); return atomic.LoadUint64(p) }
func StoreUint64(p *uint64, v uint64)      { pt("StoreUint64"); atomic.StoreUint64(p, v) }
func CompareAndSwapUint64(p *uint64, o, n uint64) bool {
	pt("CompareAndSwapUint64")
	return atomic.CompareAndSwapUint64(p, o, n)
}
func AddUint32(p *uint32, d uint32) uint32 { pt("AddUint32"); return atomic.AddUint32(p, d) }
func LoadUint32(p *uint32) uint32          { pt("LoadUint32"); return atomic.LoadUint32(p) }
func StoreUint32(p *uint32, v uint32)      { pt("StoreUint32"); atomic.StoreUint32(p, v) }
func CompareAndSwapUint32(p *uint32, o, n uint32) bool {
	pt("CompareAndSwapUint32")
	return atomic.CompareAndSwapUint32(p, o, n)
}
func AddInt32(p *int32, d int32) int32 { pt("AddInt32"); return atomic.AddInt32(p, d) }
func LoadInt32(p *int32) int32         { pt("LoadInt32"); return atomic.LoadInt32(p) }
func StoreInt32(p *int32, v int32)     { pt("StoreInt32"); atomic.StoreInt32(p, v) }
func AddInt64(p *int64, d int64) int64 { pt("AddInt64"); return atomic.AddInt64(p, d) }
func LoadInt64(p *int64) int64         { pt("LoadInt64"); return atomic.LoadInt64(p) }
func StoreInt64(p *int64, v int64)     { pt("StoreInt64"); atomic.StoreInt64(p, v) }
