package vatomic

import (
	"sync/atomic"
	"unsafe"
)

// The rest of the sync/atomic surface (not used by the repository today; present so
// that a change which starts using it still builds under the overlay).

func (x *Int32) Swap(v int32) int32 { pt("Int32.Swap"); return x.v.Swap(v) }
func (x *Int64) Swap(v int64) int64 { pt("Int64.Swap"); return x.v.Swap(v) }
func (x *Value) Swap(v interface{}) interface{} {
	pt("Value.Swap")
	return x.v.Swap(v)
}
func (x *Value) CompareAndSwap(o, n interface{}) bool {
	pt("Value.CompareAndSwap")
	return x.v.CompareAndSwap(o, n)
}

type Uintptr struct{ v atomic.Uintptr }

func (x *Uintptr) Load() uintptr          { pt("Uintptr.Load"); return x.v.Load() }
func (x *Uintptr) Store(v uintptr)        { pt("Uintptr.Store"); x.v.Store(v) }
func (x *Uintptr) Add(d uintptr) uintptr  { pt("Uintptr.Add"); return x.v.Add(d) }
func (x *Uintptr) Swap(v uintptr) uintptr { pt("Uintptr.Swap"); return x.v.Swap(v) }
func (x *Uintptr) CompareAndSwap(o, n uintptr) bool {
	pt("Uintptr.CompareAndSwap")
	return x.v.CompareAndSwap(o, n)
}

type Pointer[T any] struct{ v atomic.Pointer[T] }

func (x *Pointer[T]) Load() *T       { pt("Pointer.Load"); return x.v.Load() }
func (x *Pointer[T]) Store(v *T)     { pt("Pointer.Store"); x.v.Store(v) }
func (x *Pointer[T]) Swap(v *T) *T   { pt("Pointer.Swap"); return x.v.Swap(v) }
func (x *Pointer[T]) CompareAndSwap(o, n *T) bool {
	pt("Pointer.CompareAndSwap")
	return x.v.CompareAndSwap(o, n)
}

func CompareAndSwapInt32(p *int32, o, n int32) bool {
	pt("CompareAndSwapInt32")
	return atomic.CompareAndSwapInt32(p, o, n)
}
func CompareAndSwapInt64(p *int64, o, n int64) bool {
	pt("CompareAndSwapInt64")
	return atomic.CompareAndSwapInt64(p, o, n)
}
func CompareAndSwapUintptr(p *uintptr, o, n uintptr) bool {
	pt("CompareAndSwapUintptr")
	return atomic.CompareAndSwapUintptr(p, o, n)
}
func CompareAndSwapPointer(p *unsafe.Pointer, o, n unsafe.Pointer) bool {
	pt("CompareAndSwapPointer")
	return atomic.CompareAndSwapPointer(p, o, n)
}
func SwapInt32(p *int32, v int32) int32       { pt("SwapInt32"); return atomic.SwapInt32(p, v) }
func SwapInt64(p *int64, v int64) int64       { pt("SwapInt64"); return atomic.SwapInt64(p, v) }
func SwapUint32(p *uint32, v uint32) uint32   { pt("SwapUint32"); return atomic.SwapUint32(p, v) }
func SwapUint64(p *uint64, v uint64) uint64   { pt("SwapUint64"); return atomic.SwapUint64(p, v) }
func SwapUintptr(p *uintptr, v uintptr) uintptr { pt("SwapUintptr"); return atomic.SwapUintptr(p, v) }
func SwapPointer(p *unsafe.Pointer, v unsafe.Pointer) unsafe.Pointer {
	pt("SwapPointer")
	return atomic.SwapPointer(p, v)
}
func AddUintptr(p *uintptr, d uintptr) uintptr { pt("AddUintptr"); return atomic.AddUintptr(p, d) }
func LoadUintptr(p *uintptr) uintptr           { pt("LoadUintptr"); return atomic.LoadUintptr(p) }
func StoreUintptr(p *uintptr, v uintptr)       { pt("StoreUintptr"); atomic.StoreUintptr(p, v) }
func LoadPointer(p *unsafe.Pointer) unsafe.Pointer {
	pt("LoadPointer")
	return atomic.LoadPointer(p)
}
func StorePointer(p *unsafe.Pointer, v unsafe.Pointer) { pt("StorePointer"); atomic.StorePointer(p, v) }

func (x *Int32) And(m int32) int32    { pt("Int32.And"); return x.v.And(m) }
func (x *Int32) Or(m int32) int32     { pt("Int32.Or"); return x.v.Or(m) }
func (x *Uint32) And(m uint32) uint32 { pt("Uint32.And"); return x.v.And(m) }
func (x *Uint32) Or(m uint32) uint32  { pt("Uint32.Or"); return x.v.Or(m) }
func (x *Int64) And(m int64) int64    { pt("Int64.And"); return x.v.And(m) }
func (x *Int64) Or(m int64) int64     { pt("Int64.Or"); return x.v.Or(m) }
func (x *Uint64) And(m uint64) uint64 { pt("Uint64.And"); return x.v.And(trunc(m)) }
func (x *Uint64) Or(m uint64) uint64  { pt("Uint64.Or"); return x.v.Or(trunc(m)) }
