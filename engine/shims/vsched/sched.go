// Package vsched is the controlled scheduler of the verification framework.
//
// Exactly one controlled goroutine ("thread") runs at any time. Every shim
// operation (lock, atomic, channel, timer, statement step) calls Point first;
// the scheduler decides which thread continues. Choices are recorded, so an
// execution is a pure function of its choice list and can be replayed and
// systematically varied (explore.go).
//
// The package is mounted by `go build -overlay` as
// github.com/hashicorp/serf/zzverif/vsched so that the instrumented serf code
// and the harness share one instance.
package vsched

import (
	"fmt"
	"os"
	"runtime"
	"runtime/debug"
	"strings"
	"time"
)

// watchdog bounds the real time one execution may take (a stuck execution is a
// harness error, never a verdict).
const watchdog = 120 * time.Second

// Kind classifies scheduling points.
type Kind uint8

const (
	KStep Kind = iota
	KLock
	KAtomic
	KChan
	KSelect
	KSleep
	KJoin
	KQuiesce
	KYield
	KEnv
	KStart
	KIO
)

var kindNames = [...]string{"step", "lock", "atomic", "chan", "select", "sleep", "join", "quiesce", "yield", "env", "start", "io"}

func (k Kind) String() string { return kindNames[k] }

type thread struct {
	id     int
	name   string
	baton  chan struct{}
	done   bool
	parked bool
	cond   func() bool
	kind   Kind
	where  string
	daemon bool
}

// PointRec describes one recorded branch point (a point with >= 2 options).
type PointRec struct {
	N          int    // number of options
	Chosen     int    // index taken
	CurEnabled bool   // option 0 is the thread that was running (switching away = preemption)
	HasTimer   bool   // last option is "fire the earliest timer"
	Env        bool   // environment choice (select case, random value, harness Choose)
	Thread     int    // thread that was running
	Where      string // program point of the running thread
}

// PanicInfo is a panic caught in a controlled thread.
type PanicInfo struct {
	Thread string
	Value  string
	Frame  string // first non-runtime, non-shim frame
	Stack  string
}

// BlockedInfo describes a thread that was still parked when an execution ended.
type BlockedInfo struct {
	Thread string
	Kind   string
	Where  string
}

// Exec is the record of one execution.
type Exec struct {
	Choices  []int
	Points   []PointRec
	Panics   []PanicInfo
	Blocked  []BlockedInfo
	RootDone bool
	CapHit   bool
	Steps    int
	Switches int
	Hash     uint64
	Diverged string
}

type sched struct {
	active    bool
	killing   bool
	branching bool
	threads   []*thread
	cur       *thread
	mainCh    chan struct{}
	exitCh    chan struct{}
	prefix    []int
	pos       int
	points    []PointRec
	choices   []int
	steps     int
	switches  int
	maxSteps  int
	capHit    bool
	panics    []PanicInfo
	hash      uint64
	diverged  string

	// virtual time
	now         int64
	timers      []*vtimer
	timerSeq    int64
	horizon     int64
	timerChoice bool

	// point filters
	atomicPoints bool
	stepFns      map[string]bool
	stepAll      bool
	envCostFree  bool

	atomicDepth int
	randCtr     uint32
	opts        []*thread
	locals  map[string]interface{}
}

// S is the single scheduler instance.
var s sched

// Active reports whether a controlled execution is in progress (and not being torn down).
func Active() bool { return s.active && !s.killing }

// Killing reports whether the current execution is being torn down; shims must
// then return immediately without blocking.
func Killing() bool { return s.killing }

// InRun reports whether an execution is in progress, including tear-down.
func InRun() bool { return s.active }

func (sc *sched) mix(a uint64) {
	sc.hash ^= a
	sc.hash *= 1099511628211
}

func (sc *sched) mixs(str string) {
	for i := 0; i < len(str); i++ {
		sc.hash ^= uint64(str[i])
		sc.hash *= 1099511628211
	}
}

func enabled(t *thread) bool {
	return !t.done && t.parked && t.kind != KQuiesce && (t.cond == nil || t.cond())
}

// pick chooses the next thread to run. It returns nil when nothing can run.
func (sc *sched) pick() *thread {
	for {
		opts := sc.opts[:0]
		cur := sc.cur
		curEnabled := cur != nil && enabled(cur)
		if curEnabled {
			opts = append(opts, cur)
		}
		for _, t := range sc.threads {
			if t != cur && enabled(t) {
				opts = append(opts, t)
			}
		}
		tm := sc.earliestTimer()
		if tm != nil && tm.when > sc.horizon {
			tm = nil
		}
		if len(opts) == 0 {
			if tm != nil {
				sc.fire(tm)
				continue
			}
			// quiescing threads become enabled when nothing else is
			if cur != nil && !cur.done && cur.parked && cur.kind == KQuiesce {
				opts = append(opts, cur)
				curEnabled = true
			}
			for _, t := range sc.threads {
				if t != cur && !t.done && t.parked && t.kind == KQuiesce {
					opts = append(opts, t)
				}
			}
			if len(opts) == 0 {
				sc.opts = opts
				return nil
			}
		}
		sc.opts = opts
		n := len(opts)
		hasTimer := false
		if sc.timerChoice && tm != nil {
			n++
			hasTimer = true
		}
		idx := 0
		if n > 1 && sc.branching {
			idx = sc.nextChoice(n)
			w := ""
			tid := -1
			if cur != nil {
				w = cur.where
				tid = cur.id
			}
			sc.points = append(sc.points, PointRec{N: n, Chosen: idx, CurEnabled: curEnabled, HasTimer: hasTimer, Thread: tid, Where: w})
		}
		if hasTimer && idx == n-1 {
			sc.fire(tm)
			continue
		}
		return opts[idx]
	}
}

func (sc *sched) nextChoice(n int) int {
	idx := 0
	if sc.pos < len(sc.prefix) {
		idx = sc.prefix[sc.pos]
		if idx >= n || idx < 0 {
			if sc.diverged == "" {
				sc.diverged = fmt.Sprintf("replay divergence at choice %d: want %d of %d options", sc.pos, idx, n)
			}
			idx = 0
		}
	}
	sc.pos++
	sc.choices = append(sc.choices, idx)
	return idx
}

// Choose is an environment choice point with n options (0 is the default answer).
func Choose(n int, where string) int {
	if !Active() || n <= 1 || !s.branching {
		return 0
	}
	idx := s.nextChoice(n)
	tid := -1
	if s.cur != nil {
		tid = s.cur.id
	}
	s.points = append(s.points, PointRec{N: n, Chosen: idx, Env: true, Thread: tid, Where: where})
	s.mix(uint64(idx) + 77)
	s.mixs(where)
	return idx
}

func (sc *sched) switchTo(from, next *thread) {
	sc.cur = next
	sc.switches++
	next.baton <- struct{}{}
	<-from.baton
	if sc.killing {
		runtime.Goexit()
	}
}

func (sc *sched) endExecution(t *thread) {
	sc.mainCh <- struct{}{}
	<-t.baton
	runtime.Goexit()
}

// Point is a scheduling point of the running thread. cond == nil means always enabled.
func Point(k Kind, where string, cond func() bool) {
	sc := &s
	if !sc.active || sc.killing {
		return
	}
	if sc.atomicDepth > 0 && (cond == nil || cond()) {
		// inside an atomic section the running thread keeps running while it can
		return
	}
	t := sc.cur
	t.cond, t.kind, t.where, t.parked = cond, k, where, true
	sc.steps++
	sc.mix(uint64(t.id)<<8 | uint64(k))
	sc.mixs(where)
	if sc.steps > sc.maxSteps {
		sc.capHit = true
		sc.endExecution(t)
	}
	next := sc.pick()
	if next == nil {
		sc.endExecution(t)
	}
	if next != t {
		sc.switchTo(t, next)
	}
	t.parked = false
	t.cond = nil
}

// Atomic runs f without scheduling points (unless the thread has to block).
// Harnesses use it around calls into uninstrumented code that takes a real lock
// and calls back into instrumented code (memberlist's broadcast queue calling
// Serf.NumNodes under its mutex): a switch there could park a thread that holds
// a real mutex another controlled thread needs.
func Atomic(f func()) {
	if !Active() {
		f()
		return
	}
	s.atomicDepth++
	defer func() { s.atomicDepth-- }()
	f()
}

// Block parks the running thread forever (nil channel operations, select{}).
func Block(where string) {
	Point(KChan, where, func() bool { return false })
}

// Yield is a plain scheduling point.
func Yield(where string) { Point(KYield, where, nil) }

// Quiesce blocks the caller until no other thread can run and no timer at or
// before the horizon is pending.
func Quiesce() {
	if !Active() {
		return
	}
	Point(KQuiesce, "quiesce", nil)
}

// Step is inserted by vinstr before every statement. It is a scheduling point
// only for functions the harness enabled with StepsIn.
func Step(fn, where string) {
	if !s.active || s.killing || (!s.stepAll && s.stepFns == nil) {
		return
	}
	if s.stepAll || s.stepFns[fn] {
		Point(KStep, where, nil)
	}
}

// StepsIn enables statement-level points for the named functions
// (names as printed by vinstr: "pkg.Func" or "pkg.(*T).Method" / "pkg.T.Method").
func StepsIn(fns ...string) {
	if s.stepFns == nil {
		s.stepFns = map[string]bool{}
	}
	for _, f := range fns {
		s.stepFns[f] = true
	}
}

// Branching switches recording/branching of choice points on or off. While off,
// every point takes its default and is not part of the choice list.
func Branching(on bool) { s.branching = on }

// AtomicPoints makes atomic operations scheduling points (default on).
func AtomicPoints(on bool) { s.atomicPoints = on }

// AtomicPointsOn is used by vatomic.
func AtomicPointsOn() bool { return s.atomicPoints }

// TimerChoice makes "fire the earliest timer (<= horizon)" an alternative at every
// scheduling decision (a deviation), instead of only when nothing else can run.
func TimerChoice(on bool) { s.timerChoice = on }

// Go starts a controlled thread.
func Go(name string, f func()) {
	if !s.active {
		go f()
		return
	}
	if s.killing {
		return
	}
	s.spawn(name, f)
}

func (sc *sched) spawn(name string, f func()) *thread {
	t := &thread{id: len(sc.threads), name: name, baton: make(chan struct{}, 1), parked: true, kind: KStart, where: "start:" + name}
	sc.threads = append(sc.threads, t)
	go func() {
		<-t.baton
		if sc.killing {
			sc.exitCh <- struct{}{}
			return
		}
		defer func() {
			r := recover()
			if sc.killing {
				sc.exitCh <- struct{}{}
				return
			}
			if r != nil {
				sc.recordPanic(t, r)
			}
			t.done = true
			t.parked = false
			sc.mix(uint64(t.id)<<8 | 0xff)
			next := sc.pick()
			if next == nil {
				sc.mainCh <- struct{}{}
				return
			}
			sc.cur = next
			sc.switches++
			next.baton <- struct{}{}
		}()
		t.parked = false
		t.cond = nil
		f()
	}()
	return t
}

func (sc *sched) recordPanic(t *thread, r interface{}) {
	st := string(debug.Stack())
	sc.panics = append(sc.panics, PanicInfo{Thread: t.name, Value: fmt.Sprint(r), Frame: topFrame(st), Stack: st})
}

// topFrame extracts the first application frame below the panic from a stack dump.
func topFrame(st string) string {
	lines := strings.Split(st, "\n")
	seenPanic := false
	for i := 0; i+1 < len(lines); i++ {
		l := lines[i]
		if strings.HasPrefix(l, "panic(") {
			seenPanic = true
			continue
		}
		if !seenPanic || strings.HasPrefix(l, "\t") || strings.HasPrefix(l, "goroutine ") || l == "" {
			continue
		}
		if strings.HasPrefix(l, "runtime.") || strings.HasPrefix(l, "runtime/") || strings.Contains(l, "/zzverif/") || strings.HasPrefix(l, "sync.") || strings.HasPrefix(l, "internal/") {
			continue
		}
		if j := strings.LastIndex(l, "("); j > 0 {
			l = l[:j]
		}
		return l
	}
	return "?"
}

// ThreadName returns the name of the running thread.
func ThreadName() string {
	if s.cur == nil {
		return ""
	}
	return s.cur.name
}

// ThreadID returns the id of the running thread (-1 outside a run).
func ThreadID() int {
	if !s.active || s.cur == nil {
		return -1
	}
	return s.cur.id
}

// Handle lets a thread wait for another.
type Handle struct{ t *thread }

// Spawn starts a controlled thread and returns a handle that can be joined.
func Spawn(name string, f func()) Handle {
	if !s.active || s.killing {
		panic("vsched.Spawn outside a run")
	}
	return Handle{s.spawn(name, f)}
}

// Join blocks until the thread has finished.
func (h Handle) Join() {
	t := h.t
	Point(KJoin, "join:"+t.name, func() bool { return t.done })
}

// Where describes where a parked thread waits ("" if it is running or finished).
func (h Handle) Where() string {
	if h.t.done || !h.t.parked {
		return ""
	}
	return h.t.kind.String() + ":" + h.t.where
}

// Done reports whether the thread has finished.
func (h Handle) Done() bool { return h.t.done }

// Local returns a per-execution value slot (reset at the start of every execution).
func Local(key string) interface{} { return s.locals[key] }

// SetLocal stores a per-execution value.
func SetLocal(key string, v interface{}) {
	if s.locals == nil {
		s.locals = map[string]interface{}{}
	}
	s.locals[key] = v
}

// Options of one run.
type RunOpts struct {
	Prefix   []int
	MaxSteps int
}

// Run executes body as the root thread under the scheduler, replaying prefix and
// taking default choices afterwards. It must be called from an uncontrolled
// goroutine (the explorer / main).
func Run(o RunOpts, body func()) *Exec {
	if s.active {
		panic("vsched.Run: nested run")
	}
	max := o.MaxSteps
	if max <= 0 {
		max = 1 << 20
	}
	s = sched{
		active:       true,
		branching:    true,
		mainCh:       make(chan struct{}, 1),
		exitCh:       make(chan struct{}, 1),
		prefix:       o.Prefix,
		maxSteps:     max,
		hash:         14695981039346656037,
		atomicPoints: true,
		opts:         make([]*thread, 0, 8),
	}
	resetKeySeq()
	root := s.spawn("root", body)
	s.cur = root
	root.baton <- struct{}{}
	select {
	case <-s.mainCh:
	case <-time.After(watchdog):
		buf := make([]byte, 1<<20)
		buf = buf[:runtime.Stack(buf, true)]
		fmt.Fprintf(os.Stderr, "vsched: execution made no progress for %v: a controlled thread is blocked in an uncontrolled (real) blocking call\nprefix=%v\n%s\n", watchdog, o.Prefix, buf)
		os.Exit(2)
	}
	x := &Exec{
		Choices:  s.choices,
		Points:   s.points,
		Panics:   s.panics,
		RootDone: root.done,
		CapHit:   s.capHit,
		Steps:    s.steps,
		Switches: s.switches,
		Hash:     s.hash,
		Diverged: s.diverged,
	}
	if s.pos < len(s.prefix) && x.Diverged == "" {
		x.Diverged = fmt.Sprintf("replay divergence: prefix has %d choices, execution used %d", len(s.prefix), s.pos)
	}
	for _, t := range s.threads {
		if !t.done {
			x.Blocked = append(x.Blocked, BlockedInfo{Thread: t.name, Kind: t.kind.String(), Where: t.where})
		}
	}
	// tear down: release every parked thread in kill mode, one at a time
	s.killing = true
	for i := 0; i < len(s.threads); i++ {
		t := s.threads[i]
		if !t.done {
			t.baton <- struct{}{}
			<-s.exitCh
		}
	}
	s.active = false
	s.killing = false
	s.threads = nil
	s.cur = nil
	return x
}
