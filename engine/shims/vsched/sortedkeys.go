package vsched

import (
	"cmp"
	"slices"
)

// Go's map iteration order is random and not owned by the scheduler. vinstr
// rewrites `for k, v := range m` over maps with ordered keys in instrumented
// code into an iteration over the sorted keys, so that an execution is a pure
// function of its choice list. The rewrite keeps Go's semantics: the map
// expression is evaluated once, entries deleted before they are reached are not
// produced, values are read when their key is reached, entries inserted during
// the iteration are not produced (Go allows either).

// SortedKeys returns the keys of m in ascending order.
func SortedKeys[K cmp.Ordered, V any](m map[K]V) []K {
	keys := make([]K, 0, len(m))
	for k := range m {
		keys = append(keys, k)
	}
	slices.Sort(keys)
	return keys
}

// MapIterator is the state of one rewritten map range statement.
type MapIterator[K cmp.Ordered, V any] struct {
	m    map[K]V
	keys []K
	i    int
	k    K
	v    V
}

// RangeMap starts a canonical (sorted-key) iteration over m.
func RangeMap[K cmp.Ordered, V any](m map[K]V) *MapIterator[K, V] {
	return &MapIterator[K, V]{m: m, keys: SortedKeys(m)}
}

// Next advances to the next key that is still present; false when exhausted.
func (it *MapIterator[K, V]) Next() bool {
	for it.i < len(it.keys) {
		k := it.keys[it.i]
		it.i++
		if v, ok := it.m[k]; ok {
			it.k, it.v = k, v
			return true
		}
	}
	return false
}

func (it *MapIterator[K, V]) Key() K { return it.k }
func (it *MapIterator[K, V]) Val() V { return it.v }
