package vsched

import (
	"cmp"
	"slices"
)

// Go's map iteration order is random and not owned by the scheduler. vinstr
// rewrites `for k, v := range m` over maps with ordered keys in instrumented
// code into an iteration over the sorted keys, so that an execution is a pure
// function of its choice list. The rewrite keeps Go's semantics: the map
// expression is evaluated once, entries deleted before they are reached are not
// produced, values are read when their key is reached, entries inserted during
// the iteration are not produced (Go allows either).

// SortedKeys returns the keys of m in ascending order.
func SortedKeys[K cmp.Ordered, V any](m map[K]V) []K {
	keys := make([]K, 0, len(m))
	for k := range m {
		keys = append(keys, k)
	}
	slices.Sort(keys)
	return keys
}

// MapIterator is the state of one rewritten map range statement.
type MapIterator[K cmp.Ordered, V any] struct {
	m    map[K]V
	keys []K
	i    int
	k    K
	v    V
}

// RangeMap starts a canonical (sorted-key) iteration over m.
func RangeMap[K cmp.Ordered, V any](m map[K]V) *MapIterator[K, V] {
	return &MapIterator[K, V]{m: m, keys: SortedKeys(m)}
}

// Next advances to the next key that is still present; false when exhausted.
func (it *MapIterator[K, V]) Next() bool {
	for it.i < len(it.keys) {
		k := it.keys[it.i]
		it.i++
		if v, ok := it.m[k]; ok {
			it.k, it.v = k, v
			return true
		}
	}
	return false
}

func (it *MapIterator[K, V]) Key() K { return it.k }
func (it *MapIterator[K, V]) Val() V { return it.v }

// Maps whose key type has no order (interface values, pointers, structs): vinstr
// notes every key at the assignment that inserts it (NoteKey) and iterates such a
// map in order of first insertion within the current execution (RangeMapAny). Keys
// that were never noted (inserted by code outside the instrumented packages) come
// last, in Go's order.
var (
	keySeq map[any]uint64
	keyCtr uint64
)

func resetKeySeq() { keySeq, keyCtr = nil, 0 }

// NoteKey records the first time a key is inserted into an unordered-key map.
func NoteKey(k any) {
	if keySeq == nil {
		keySeq = map[any]uint64{}
	}
	if _, ok := keySeq[k]; !ok {
		keyCtr++
		keySeq[k] = keyCtr
	}
}

// AnyIterator is the state of one rewritten range statement over an unordered-key map.
type AnyIterator[K comparable, V any] struct {
	m    map[K]V
	keys []K
	i    int
	k    K
	v    V
}

// RangeMapAny starts an iteration in order of first insertion.
func RangeMapAny[K comparable, V any](m map[K]V) *AnyIterator[K, V] {
	keys := make([]K, 0, len(m))
	for k := range m {
		keys = append(keys, k)
	}
	seq := func(k K) uint64 {
		if s, ok := keySeq[any(k)]; ok {
			return s
		}
		return ^uint64(0)
	}
	slices.SortStableFunc(keys, func(a, b K) int { return cmp.Compare(seq(a), seq(b)) })
	return &AnyIterator[K, V]{m: m, keys: keys}
}

func (it *AnyIterator[K, V]) Next() bool {
	for it.i < len(it.keys) {
		k := it.keys[it.i]
		it.i++
		if v, ok := it.m[k]; ok {
			it.k, it.v = k, v
			return true
		}
	}
	return false
}

func (it *AnyIterator[K, V]) Key() K { return it.k }
func (it *AnyIterator[K, V]) Val() V { return it.v }
