package vsched

import (
	"fmt"
	"os"
	"time"
)

var debugExplore = os.Getenv("VERIF_DEBUG_EXPLORE") != ""

// ExploreCfg bounds one exhaustive exploration.
type ExploreCfg struct {
	Name         string
	Bound        int  // maximal number of deviations (preemptions, early timers, non-default env answers)
	EnvFree      bool // environment choices cost nothing (all values explored at every bound)
	FreeSwitches bool // non-preemptive switches cost nothing (preemption bounding instead of delay bounding)
	MaxSteps     int  // per-execution horizon (reported as cap when hit)
	MaxExecs     int  // 0 = unlimited
	Deadline     time.Time
	Shard        int // this worker explores the level-1 subtrees with index % NShards == Shard
	NShards      int
}

// Violation is one failed execution.
type Violation struct {
	Scenario  string
	Signature string // canonical description used for known-finding matching
	Message   string
	Choices   []int
	Hash      uint64
}

// Result of an exploration.
type Result struct {
	Name       string
	Bound      int
	Execs      int
	Nontrivial int // executions with at least one context switch or env deviation inside the branching window
	Outcomes   map[string]int
	Violations []Violation
	CapHits    int
	MaxPoints  int
	Exhaustive bool
	StopReason string
	HarnessErr string
	Sample     []string
}

type frame struct {
	choices []int
	pts     []PointRec
	from    int
	cost    int
	i       int
	alt     int
}

// altCost is the number of deviations charged for taking alternative alt at p.
// Preempting a runnable thread always costs one. With freeSwitches (classic
// preemption bounding) the choice of the next thread after the running one
// blocked or finished is free; without it (delay bounding, the default) every
// departure from the canonical order costs one, which keeps executions with many
// simultaneously runnable background threads tractable.
func altCost(p PointRec, alt int, envFree, freeSwitches bool) int {
	if p.Env {
		if envFree {
			return 0
		}
		return 1
	}
	if p.CurEnabled {
		return 1
	}
	if p.HasTimer && alt == p.N-1 {
		return 1
	}
	if freeSwitches {
		return 0
	}
	return 1
}

// Explore runs body under every schedule within cfg. check is called after each
// execution (outside the scheduler) and returns an outcome label (for the
// distinct-outcome statistic) and, if the property is violated, a signature and
// message.
func Explore(cfg ExploreCfg, body func(), check func(x *Exec) (outcome string, sig string, msg string)) *Result {
	res := &Result{Name: cfg.Name, Bound: cfg.Bound, Outcomes: map[string]int{}, Exhaustive: true}
	if cfg.NShards <= 0 {
		cfg.NShards = 1
	}
	seenViol := map[string]bool{}
	runOne := func(prefix []int) *Exec {
		x := Run(RunOpts{Prefix: prefix, MaxSteps: cfg.MaxSteps}, body)
		return x
	}
	eval := func(x *Exec) {
		res.Execs++
		if len(x.Points) > res.MaxPoints {
			res.MaxPoints = len(x.Points)
		}
		if x.CapHit {
			res.CapHits++
			res.Exhaustive = false
			res.StopReason = "step cap hit in some executions"
		}
		nt := false
		for _, c := range x.Choices {
			if c != 0 {
				nt = true
				break
			}
		}
		if nt {
			res.Nontrivial++
		}
		out, sig, msg := check(x)
		res.Outcomes[out]++
		if debugExplore && res.Execs%5000 == 0 {
			nz := 0
			for _, c := range x.Choices {
				if c != 0 {
					nz++
				}
			}
			fmt.Fprintf(os.Stderr, "explore %s: exec %d points=%d nonzero=%d choices=%v\n", cfg.Name, res.Execs, len(x.Points), nz, x.Choices)
			for i, p := range x.Points {
				if x.Choices[i] != 0 {
					fmt.Fprintf(os.Stderr, "   point %d: N=%d chosen=%d curEnabled=%v timer=%v env=%v thread=%d where=%s\n", i, p.N, p.Chosen, p.CurEnabled, p.HasTimer, p.Env, p.Thread, p.Where)
				}
			}
		}
		if len(res.Sample) < 3 && nt {
			res.Sample = append(res.Sample, fmt.Sprintf("choices=%v outcome=%s", x.Choices, out))
		}
		if sig != "" {
			if !seenViol[sig] {
				seenViol[sig] = true
				res.Violations = append(res.Violations, Violation{Scenario: cfg.Name, Signature: sig, Message: msg, Choices: append([]int{}, x.Choices...), Hash: x.Hash})
			}
		}
	}
	x0 := runOne(nil)
	if x0.Diverged != "" {
		res.HarnessErr = x0.Diverged
		return res
	}
	x0b := runOne(nil)
	if x0b.Hash != x0.Hash || len(x0b.Points) != len(x0.Points) {
		res.HarnessErr = fmt.Sprintf("NONDETERMINISM: default execution hashed %x then %x (%d vs %d points)", x0.Hash, x0b.Hash, len(x0.Points), len(x0b.Points))
		return res
	}
	if cfg.Shard == 0 {
		eval(x0)
	}
	stack := []*frame{{choices: x0.Choices, pts: x0.Points, from: 0, cost: 0, i: 0, alt: 1}}
	level1 := 0
	for len(stack) > 0 {
		f := stack[len(stack)-1]
		// advance to next admissible alternative
		var child []int
		ccost := 0
		for f.i < len(f.pts) {
			p := f.pts[f.i]
			if f.i < f.from {
				f.i = f.from
				f.alt = 1
				continue
			}
			if f.alt >= p.N {
				f.i++
				f.alt = 1
				continue
			}
			c := f.cost + altCost(p, f.alt, cfg.EnvFree, cfg.FreeSwitches)
			alt := f.alt
			f.alt++
			if c > cfg.Bound {
				continue
			}
			child = make([]int, f.i+1)
			copy(child, f.choices[:f.i])
			child[f.i] = alt
			ccost = c
			break
		}
		if child == nil {
			stack = stack[:len(stack)-1]
			continue
		}
		if len(stack) == 1 {
			idx := level1
			level1++
			if idx%cfg.NShards != cfg.Shard {
				continue
			}
		}
		if cfg.MaxExecs > 0 && res.Execs >= cfg.MaxExecs {
			res.Exhaustive = false
			res.StopReason = fmt.Sprintf("execution cap %d reached", cfg.MaxExecs)
			break
		}
		if !cfg.Deadline.IsZero() && res.Execs%64 == 0 && time.Now().After(cfg.Deadline) {
			res.Exhaustive = false
			res.StopReason = "internal deadline reached"
			break
		}
		x := runOne(child)
		if x.Diverged != "" {
			res.HarnessErr = fmt.Sprintf("%s (prefix %v)", x.Diverged, child)
			return res
		}
		eval(x)
		stack = append(stack, &frame{choices: x.Choices, pts: x.Points, from: len(child), cost: ccost, i: len(child), alt: 1})
	}
	// confirm every violation by identical replay
	for i := range res.Violations {
		v := &res.Violations[i]
		for k := 0; k < 2; k++ {
			x := runOne(v.Choices)
			_, sig, _ := check(x)
			if x.Hash != v.Hash || sig != v.Signature {
				res.HarnessErr = fmt.Sprintf("NONDETERMINISM: violation %q did not replay identically (hash %x vs %x, sig %q)", v.Signature, v.Hash, x.Hash, sig)
				return res
			}
		}
	}
	return res
}

// Replay runs one recorded choice list.
func Replay(choices []int, maxSteps int, body func()) *Exec {
	return Run(RunOpts{Prefix: choices, MaxSteps: maxSteps}, body)
}
