package vsched

// Virtual time. The clock only moves when a timer fires (automatically when no
// thread can run and the timer lies at or before the horizon, or as an explored
// alternative with TimerChoice) or when the harness calls Advance.

const epochUnixNano int64 = 1577836800 * 1e9 // 2020-01-01T00:00:00Z

type vtimer struct {
	when   int64
	seq    int64
	period int64
	fn     func() // runs in scheduler context; must not block
	active bool
	name   string
}

// TimerHandle identifies a registered timer.
type TimerHandle struct{ t *vtimer }

// NowNano returns the virtual time in ns since the Unix epoch.
func NowNano() int64 { return epochUnixNano + s.now }

// Elapsed returns the virtual ns since the start of the execution.
func Elapsed() int64 { return s.now }

// AddTimer registers fn to run (in scheduler context, non-blocking) after d ns.
// period > 0 re-arms it.
func AddTimer(d, period int64, name string, fn func()) TimerHandle {
	if d < 0 {
		d = 0
	}
	s.timerSeq++
	t := &vtimer{when: s.now + d, seq: s.timerSeq, period: period, fn: fn, active: true, name: name}
	s.timers = append(s.timers, t)
	return TimerHandle{t}
}

// Stop deactivates the timer; it reports whether the timer was still pending.
func (h TimerHandle) Stop() bool {
	if h.t == nil {
		return false
	}
	was := h.t.active
	h.t.active = false
	return was
}

// Reset re-arms the timer d ns from now; reports whether it was pending.
func (h TimerHandle) Reset(d int64) bool {
	was := h.t.active
	if d < 0 {
		d = 0
	}
	h.t.when = s.now + d
	s.timerSeq++
	h.t.seq = s.timerSeq
	if !was {
		h.t.active = true
		found := false
		for _, x := range s.timers {
			if x == h.t {
				found = true
				break
			}
		}
		if !found {
			s.timers = append(s.timers, h.t)
		}
	}
	return was
}

func (sc *sched) earliestTimer() *vtimer {
	var best *vtimer
	j := 0
	for _, t := range sc.timers {
		if !t.active {
			continue
		}
		sc.timers[j] = t
		j++
		if best == nil || t.when < best.when || (t.when == best.when && t.seq < best.seq) {
			best = t
		}
	}
	for k := j; k < len(sc.timers); k++ {
		sc.timers[k] = nil
	}
	sc.timers = sc.timers[:j]
	return best
}

func (sc *sched) fire(t *vtimer) {
	if t.when > sc.now {
		sc.now = t.when
	}
	sc.mix(uint64(t.when) ^ 0xabcdef)
	if t.period > 0 {
		t.when += t.period
		sc.timerSeq++
		t.seq = sc.timerSeq
	} else {
		t.active = false
	}
	t.fn()
}

// SetHorizon lets timers up to d ns from the start of the execution fire
// automatically whenever nothing else can run.
func SetHorizon(d int64) { s.horizon = d }

// Horizon returns the current horizon (ns since the start of the execution).
func Horizon() int64 { return s.horizon }

// Advance moves virtual time forward by d ns, firing every timer that becomes
// due (each followed by running the system to quiescence), and returns with the
// clock at exactly now+d. Call from the harness root thread.
func Advance(d int64) {
	if !Active() {
		return
	}
	target := s.now + d
	old := s.horizon
	if target > s.horizon {
		s.horizon = target
	}
	Quiesce()
	if s.now < target {
		s.now = target
	}
	s.horizon = old
	if s.horizon < s.now {
		s.horizon = s.now
	}
}

// SleepUntilElapsed blocks the running thread for d virtual ns.
func Sleep(d int64, where string) {
	if !Active() {
		return
	}
	if d <= 0 {
		Yield(where)
		return
	}
	fired := false
	AddTimer(d, 0, "sleep", func() { fired = true })
	Point(KSleep, where, func() bool { return fired })
}

// PendingTimers returns the number of active timers (diagnostics).
func PendingTimers() int {
	n := 0
	for _, t := range s.timers {
		if t.active {
			n++
		}
	}
	return n
}

// NextRand returns a fresh distinct 31-bit value (query ids).
func NextRand() uint32 {
	s.randCtr++
	return 1000 + s.randCtr
}
