package vsched

// In-run choice feeding: a harness that plays the environment itself (instead of
// re-executing from scratch under Explore) decides the answers of the next choice
// points of the running execution. The recorded choice list (Exec.Choices) stays
// complete, so such an execution is still replayable.

var fedBuf []int

// Feed replaces all not yet consumed answers by the given ones: the next choice
// points (in a Branching(true) window) take answers[0], answers[1], ...; points
// beyond them take the default 0. Feed(nil) drops unconsumed answers.
func Feed(answers []int) {
	if !s.active {
		return
	}
	owned := len(fedBuf) > 0 && len(s.prefix) > 0 && &fedBuf[0] == &s.prefix[0]
	if !owned {
		// never write into the caller's RunOpts.Prefix
		p := make([]int, len(s.prefix), s.pos+len(answers)+64)
		copy(p, s.prefix)
		s.prefix = p
	}
	if len(s.prefix) > s.pos {
		s.prefix = s.prefix[:s.pos]
	}
	for len(s.prefix) < s.pos {
		s.prefix = append(s.prefix, 0) // consumed positions are never read again
	}
	s.prefix = append(s.prefix, answers...)
	fedBuf = nil
	if len(s.prefix) > 0 {
		fedBuf = s.prefix[:1:1]
	}
}

// Consumed returns the number of choice points taken so far in the running execution.
func Consumed() int { return s.pos }

// Forget drops the choice points recorded so far (and all unconsumed answers).
// A harness that enumerates environment answers in-run over millions of points
// calls it between cases to keep the record small; Exec.Choices/Points then cover
// only the part after the last Forget, so such a harness must describe its cases
// itself (it cannot be replayed from Exec.Choices).
func Forget() {
	if !s.active {
		return
	}
	s.points = s.points[:0]
	s.choices = s.choices[:0]
	s.prefix = nil
	s.pos = 0
	fedBuf = nil
}
