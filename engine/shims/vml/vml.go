// Package vml is the seam for the two memberlist calls in which serf blocks on a
// wall-clock timeout: Memberlist.Leave and Memberlist.UpdateNode wait until their
// broadcast has been transmitted or the timeout expires. Under the scheduler the
// inert memberlist never transmits anything, so the outcome is known at once (nil
// when memberlist knows no other live node, the timeout error otherwise); the seam
// makes the real call with a minimal timeout and then lets the caller wait out the
// original timeout in VIRTUAL time, so that other threads run during the wait as they
// would in a live node (a Shutdown landing while Leave is blocked inside memberlist).
package vml

import (
	"time"

	"github.com/hashicorp/memberlist"
	"github.com/hashicorp/serf/zzverif/vsched"
	"github.com/hashicorp/serf/zzverif/vtime"
)

func Leave(m *memberlist.Memberlist, timeout time.Duration) error {
	if !vsched.Active() || timeout <= 0 {
		return m.Leave(timeout)
	}
	err := m.Leave(time.Nanosecond)
	if err != nil {
		wait(timeout)
	}
	return err
}

func UpdateNode(m *memberlist.Memberlist, timeout time.Duration) error {
	if !vsched.Active() || timeout <= 0 {
		return m.UpdateNode(timeout)
	}
	err := m.UpdateNode(time.Nanosecond)
	if err != nil {
		wait(timeout)
	}
	return err
}

// wait lets the timeout pass in virtual time if the harness lets virtual time run that far (a
// harness that set no horizon gets the old behaviour: the call returns at once).
func wait(timeout time.Duration) {
	if vsched.Elapsed()+int64(timeout) <= vsched.Horizon() {
		vtime.Sleep(timeout)
	}
}

// Shutdown: memberlist.Shutdown closes sockets and waits for its goroutines; serf calls it while
// holding its state lock. Under the scheduler the real call returns at once; the seam then lets a
// little virtual time pass (if the harness's horizon allows), so that timers of other calls can
// expire while a Shutdown is in progress.
func Shutdown(m *memberlist.Memberlist) error {
	err := m.Shutdown()
	if vsched.Active() {
		wait(ShutdownTakes)
	}
	return err
}

// ShutdownTakes is the virtual duration of memberlist.Shutdown under the scheduler.
var ShutdownTakes = time.Millisecond
