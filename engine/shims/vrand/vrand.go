// Package vrand replaces "math/rand" in instrumented code. Under the scheduler
// query ids are fresh distinct values and bounded draws are environment choices
// (default answer 0) that the explorer enumerates.
package vrand

import (
	"math/rand"

	"github.com/hashicorp/serf/zzverif/vsched"
)

type Rand = rand.Rand
type Source = rand.Source

func New(src Source) *Rand        { return rand.New(src) }
func NewSource(seed int64) Source { return rand.NewSource(seed) }
func Seed(seed int64)             { rand.Seed(seed) }

// FloatMenu is the set of values Float64/Float32 may return under the scheduler.
var FloatMenu = []float64{0, 0.25, 0.5, 0.75, 0.999}

// IntnLimit is the largest n for which Intn(n) is enumerated completely; above it
// the choice is among {0, 1, n-1}.
var IntnLimit = 8

func Int31() int32 {
	if !vsched.Active() {
		return rand.Int31()
	}
	return int32(vsched.NextRand())
}
func Int63() int64 {
	if !vsched.Active() {
		return rand.Int63()
	}
	return int64(vsched.NextRand())
}
func Uint32() uint32 {
	if !vsched.Active() {
		return rand.Uint32()
	}
	return vsched.NextRand()
}
func Int() int {
	if !vsched.Active() {
		return rand.Int()
	}
	return int(vsched.NextRand())
}

func choose(n int, where string) int {
	if n <= IntnLimit {
		return vsched.Choose(n, where)
	}
	switch vsched.Choose(3, where) {
	case 1:
		return 1
	case 2:
		return n - 1
	}
	return 0
}

func Intn(n int) int {
	if !vsched.Active() {
		return rand.Intn(n)
	}
	if n <= 0 {
		panic("invalid argument to Intn")
	}
	return choose(n, "rand.Intn")
}
func Int31n(n int32) int32 {
	if !vsched.Active() {
		return rand.Int31n(n)
	}
	if n <= 0 {
		panic("invalid argument to Int31n")
	}
	return int32(choose(int(n), "rand.Int31n"))
}
func Int63n(n int64) int64 {
	if !vsched.Active() {
		return rand.Int63n(n)
	}
	if n <= 0 {
		panic("invalid argument to Int63n")
	}
	if n > 1<<30 {
		n = 1 << 30
	}
	return int64(choose(int(n), "rand.Int63n"))
}
func Float64() float64 {
	if !vsched.Active() {
		return rand.Float64()
	}
	return FloatMenu[vsched.Choose(len(FloatMenu), "rand.Float64")]
}
func Float32() float32 {
	if !vsched.Active() {
		return rand.Float32()
	}
	return float32(FloatMenu[vsched.Choose(len(FloatMenu), "rand.Float32")])
}
func Perm(n int) []int {
	if !vsched.Active() {
		return rand.Perm(n)
	}
	p := make([]int, n)
	for i := range p {
		p[i] = i
	}
	return p
}
func Shuffle(n int, swap func(i, j int)) {
	if !vsched.Active() {
		rand.Shuffle(n, swap)
	}
}
