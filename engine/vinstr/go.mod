module verif/vinstr

go 1.23

require golang.org/x/tools v0.29.0
