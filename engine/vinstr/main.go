// vinstr rewrites the current working tree of hashicorp/serf for the controlled
// scheduler and emits a `go build -overlay` file; /repo itself is never touched.
//
//	vinstr -repo /repo -shims /verif/engine/shims -inject /verif/engine/inject -out /verif/build/instr
//
// Rewrites (see DESIGN.md §2.1): import seams (sync, sync/atomic, time,
// math/rand; os for serf/snapshot.go), channel operations, select statements,
// go statements, a vsched.Step before every statement, and a read/point/write
// split of read-modify-write statements on fields.
package main

import (
	"bytes"
	"encoding/json"
	"flag"
	"fmt"
	"go/ast"
	"go/format"
	"go/parser"
	"go/printer"
	"go/token"
	"go/types"
	"os"
	"path/filepath"
	"sort"
	"strconv"
	"strings"

	"golang.org/x/tools/go/ast/astutil"
)

const shimBase = "github.com/hashicorp/serf/zzverif/"

var pkgDirs = []string{"serf", "coordinate", "client", "cmd/serf/command/agent"}

var importSeams = map[string]string{
	"sync":        "vsync",
	"sync/atomic": "vatomic",
	"time":        "vtime",
	"math/rand":   "vrand",
}

// files that additionally get os -> vos
var osSeamFiles = map[string]bool{"serf/snapshot.go": true}

type stubImporter struct{ pkgs map[string]*types.Package }

func (s *stubImporter) Import(path string) (*types.Package, error) {
	if p, ok := s.pkgs[path]; ok {
		return p, nil
	}
	name := filepath.Base(path)
	if len(name) >= 2 && name[0] == 'v' && name[1] >= '0' && name[1] <= '9' {
		name = filepath.Base(filepath.Dir(path))
	}
	name = strings.TrimPrefix(name, "go-")
	p := types.NewPackage(path, name)
	p.MarkComplete()
	s.pkgs[path] = p
	return p, nil
}

func main() {
	repo := flag.String("repo", "/repo", "repository root")
	shims := flag.String("shims", "", "shim package sources")
	inject := flag.String("inject", "", "directory tree of files to add (relative to repo root)")
	out := flag.String("out", "", "output directory")
	flag.Parse()
	if *out == "" || *shims == "" {
		fmt.Fprintln(os.Stderr, "usage: vinstr -repo R -shims S -out O")
		os.Exit(2)
	}
	overlay := map[string]string{}
	loadShimExports(*shims)
	must(os.RemoveAll(filepath.Join(*out, "src")))
	for _, dir := range pkgDirs {
		instrumentPackage(*repo, dir, filepath.Join(*out, "src"), overlay)
	}
	// shim packages as virtual packages
	ents, err := os.ReadDir(*shims)
	must(err)
	for _, e := range ents {
		if !e.IsDir() {
			continue
		}
		fs, _ := filepath.Glob(filepath.Join(*shims, e.Name(), "*.go"))
		for _, f := range fs {
			overlay[filepath.Join(*repo, "zzverif", e.Name(), filepath.Base(f))] = f
		}
	}
	if *inject != "" {
		filepath.Walk(*inject, func(p string, info os.FileInfo, err error) error {
			if err != nil || info.IsDir() || !strings.HasSuffix(p, ".go") {
				return nil
			}
			rel, _ := filepath.Rel(*inject, p)
			overlay[filepath.Join(*repo, rel)] = p
			return nil
		})
	}
	b, _ := json.MarshalIndent(map[string]interface{}{"Replace": overlay}, "", " ")
	must(os.WriteFile(filepath.Join(*out, "overlay.json"), b, 0o644))
}

func must(err error) {
	if err != nil {
		fmt.Fprintln(os.Stderr, "vinstr:", err)
		os.Exit(2)
	}
}

func instrumentPackage(repo, dir, outRoot string, overlay map[string]string) {
	fset := token.NewFileSet()
	matches, err := filepath.Glob(filepath.Join(repo, dir, "*.go"))
	must(err)
	sort.Strings(matches)
	var files []*ast.File
	var names []string
	for _, m := range matches {
		if strings.HasSuffix(m, "_test.go") {
			continue
		}
		f, err := parser.ParseFile(fset, m, nil, parser.ParseComments|parser.SkipObjectResolution)
		must(err)
		files = append(files, f)
		names = append(names, m)
	}
	info := &types.Info{Types: map[ast.Expr]types.TypeAndValue{}, Uses: map[*ast.Ident]types.Object{}}
	conf := types.Config{Importer: &stubImporter{pkgs: map[string]*types.Package{}}, Error: func(error) {}, FakeImportC: true}
	conf.Check(dir, fset, files, info)
	for i, f := range files {
		rel, _ := filepath.Rel(repo, names[i])
		src, _ := os.ReadFile(names[i])
		r := &rewriter{fset: fset, info: info, file: f, rel: rel, pkg: f.Name.Name}
		r.run()
		var buf bytes.Buffer
		for _, l := range strings.SplitN(string(src), "\npackage ", 2)[:1] {
			for _, line := range strings.Split(l, "\n") {
				if strings.HasPrefix(line, "//go:build") {
					buf.WriteString(line + "\n\n")
				}
			}
		}
		f.Comments = nil
		cfg := printer.Config{Mode: printer.UseSpaces | printer.TabIndent, Tabwidth: 8}
		must(cfg.Fprint(&buf, fset, f))
		outb := buf.Bytes()
		if fb, err := format.Source(outb); err == nil {
			outb = fb
		} else {
			fmt.Fprintf(os.Stderr, "vinstr: warning: %s does not re-parse: %v\n", rel, err)
		}
		dst := filepath.Join(outRoot, rel)
		must(os.MkdirAll(filepath.Dir(dst), 0o755))
		must(os.WriteFile(dst, outb, 0o644))
		overlay[names[i]] = dst
	}
}

type rewriter struct {
	fset      *token.FileSet
	info      *types.Info
	file      *ast.File
	rel       string
	pkg       string
	useChan   bool
	useSched  bool
	useML     bool
	tmp       int
	skip      map[ast.Node]bool
	recv2     map[*ast.UnaryExpr]bool
	rangeChan map[*ast.RangeStmt]bool
	rangeMap  map[*ast.RangeStmt]bool
	rangeAny  map[*ast.RangeStmt]bool
	selBlocks map[*ast.BlockStmt]bool
	fnStack   []string
	seams     []seam
}

func (r *rewriter) run() {
	r.skip = map[ast.Node]bool{}
	r.recv2 = map[*ast.UnaryExpr]bool{}
	r.rangeChan = map[*ast.RangeStmt]bool{}
	r.rangeMap = map[*ast.RangeStmt]bool{}
	r.rangeAny = map[*ast.RangeStmt]bool{}
	r.selBlocks = map[*ast.BlockStmt]bool{}
	// imports
	for _, imp := range r.file.Imports {
		p, _ := strconv.Unquote(imp.Path.Value)
		if shim, ok := importSeams[p]; ok {
			r.replaceImport(imp, p, shim)
		}
		if p == "net" && filepath.Dir(r.rel) == "client" {
			// the RPC client talks to an in-memory, scheduler-aware connection
			r.replaceImport(imp, p, "vnet")
		}
		if p == "os" && osSeamFiles[r.rel] {
			r.replaceImport(imp, p, "vos")
		}
	}
	for _, d := range r.file.Decls {
		fd, ok := d.(*ast.FuncDecl)
		if !ok || fd.Body == nil {
			continue
		}
		r.fnStack = []string{r.funcName(fd)}
		astutil.Apply(fd.Body, r.pre, r.post)
	}
	r.fallbackToReal()
	if r.useML {
		astutil.AddImport(r.fset, r.file, shimBase+"vml")
	}
	if r.useChan {
		astutil.AddImport(r.fset, r.file, shimBase+"vchan")
	}
	if r.useSched {
		astutil.AddImport(r.fset, r.file, shimBase+"vsched")
	}
}

func (r *rewriter) replaceImport(imp *ast.ImportSpec, old, shim string) {
	name := filepath.Base(old)
	if imp.Name != nil {
		name = imp.Name.Name
	}
	imp.Name = ast.NewIdent(name)
	imp.Path.Value = strconv.Quote(shimBase + shim)
	imp.EndPos = 0
	r.seams = append(r.seams, seam{local: name, real: old, shim: shim})
}

type seam struct{ local, real, shim string }

// shimExports: exported package-level identifiers of each shim package.
var shimExports = map[string]map[string]bool{}

func loadShimExports(shims string) {
	ents, _ := os.ReadDir(shims)
	for _, e := range ents {
		if !e.IsDir() {
			continue
		}
		set := map[string]bool{}
		fs, _ := filepath.Glob(filepath.Join(shims, e.Name(), "*.go"))
		for _, f := range fs {
			af, err := parser.ParseFile(token.NewFileSet(), f, nil, parser.SkipObjectResolution)
			if err != nil {
				continue
			}
			for _, d := range af.Decls {
				switch d := d.(type) {
				case *ast.FuncDecl:
					if d.Recv == nil {
						set[d.Name.Name] = true
					}
				case *ast.GenDecl:
					for _, s := range d.Specs {
						switch s := s.(type) {
						case *ast.TypeSpec:
							set[s.Name.Name] = true
						case *ast.ValueSpec:
							for _, n := range s.Names {
								set[n.Name] = true
							}
						}
					}
				}
			}
		}
		shimExports[e.Name()] = set
	}
}

// fallbackToReal: a shim covers the part of its package's API the repository uses.
// A reference to anything else (a change may start using it) keeps pointing at the
// real package, imported under a second name, so that the instrumented tree still
// builds; such a call is then simply not a scheduling point / not virtualised.
func (r *rewriter) fallbackToReal() {
	need := map[string]string{}
	for _, s := range r.seams {
		s := s
		exp := shimExports[s.shim]
		if exp == nil {
			continue
		}
		ast.Inspect(r.file, func(n ast.Node) bool {
			se, ok := n.(*ast.SelectorExpr)
			if !ok {
				return true
			}
			id, ok := se.X.(*ast.Ident)
			if !ok || id.Name != s.local || exp[se.Sel.Name] {
				return true
			}
			// (no entry at all: the stub type check gave up on the enclosing expression;
			// an identifier that is a variable would have been resolved)
			if obj := r.info.Uses[id]; obj != nil {
				if _, isPkg := obj.(*types.PkgName); !isPkg {
					return true
				}
			}
			alias := "_real_" + strings.ReplaceAll(s.real, "/", "_")
			id.Name = alias
			need[alias] = s.real
			return true
		})
	}
	for alias, path := range need {
		astutil.AddNamedImport(r.fset, r.file, alias, path)
	}
}

func (r *rewriter) funcName(fd *ast.FuncDecl) string {
	if fd.Recv == nil || len(fd.Recv.List) == 0 {
		return r.pkg + "." + fd.Name.Name
	}
	t := fd.Recv.List[0].Type
	star := false
	if s, ok := t.(*ast.StarExpr); ok {
		star = true
		t = s.X
	}
	if ix, ok := t.(*ast.IndexExpr); ok {
		t = ix.X
	}
	tn := "?"
	if id, ok := t.(*ast.Ident); ok {
		tn = id.Name
	}
	if star {
		return r.pkg + ".(*" + tn + ")." + fd.Name.Name
	}
	return r.pkg + "." + tn + "." + fd.Name.Name
}

func (r *rewriter) where(n ast.Node) string {
	p := r.fset.Position(n.Pos())
	return filepath.Base(p.Filename) + ":" + strconv.Itoa(p.Line)
}

func sel(pkg, name string) ast.Expr {
	return &ast.SelectorExpr{X: ast.NewIdent(pkg), Sel: ast.NewIdent(name)}
}

func call(fun ast.Expr, args ...ast.Expr) *ast.CallExpr {
	return &ast.CallExpr{Fun: fun, Args: args}
}

func strLit(s string) ast.Expr {
	return &ast.BasicLit{Kind: token.STRING, Value: strconv.Quote(s)}
}

func intLit(i int) ast.Expr {
	return &ast.BasicLit{Kind: token.INT, Value: strconv.Itoa(i)}
}

func isRecv(e ast.Expr) (*ast.UnaryExpr, bool) {
	for {
		if p, ok := e.(*ast.ParenExpr); ok {
			e = p.X
			continue
		}
		break
	}
	u, ok := e.(*ast.UnaryExpr)
	if ok && u.Op == token.ARROW {
		return u, true
	}
	return nil, false
}

func (r *rewriter) pre(c *astutil.Cursor) bool {
	switch n := c.Node().(type) {
	case *ast.SelectStmt:
		for _, cl := range n.Body.List {
			cc := cl.(*ast.CommClause)
			switch cm := cc.Comm.(type) {
			case *ast.SendStmt:
				r.skip[cm] = true
			case *ast.ExprStmt:
				if u, ok := isRecv(cm.X); ok {
					r.skip[u] = true
				}
			case *ast.AssignStmt:
				if u, ok := isRecv(cm.Rhs[0]); ok {
					r.skip[u] = true
					r.skip[cm] = true
				}
			}
		}
	case *ast.RangeStmt:
		if tv, ok := r.info.Types[n.X]; ok && tv.Type != nil {
			if _, isCh := tv.Type.Underlying().(*types.Chan); isCh {
				r.rangeChan[n] = true
			}
			if r.unorderedKeyMap(n.X) {
				fmt.Printf("note: %s ranges over a map whose key type has no order (%s): iterated in insertion order\n", r.where(n), tv.Type)
				r.rangeMap[n] = true
				r.rangeAny[n] = true
			}
			if orderedKeyMap(tv.Type) {
				r.rangeMap[n] = true
			}
		} else if n.Value == nil {
			fmt.Fprintf(os.Stderr, "vinstr: warning: %s: single-variable range without type information (a channel range would be missed)\n", r.where(n))
		}
	case *ast.AssignStmt:
		// v, ok := <-ch
		if len(n.Lhs) == 2 && len(n.Rhs) == 1 && !r.skip[n] {
			if u, ok := isRecv(n.Rhs[0]); ok {
				r.recv2[u] = true
				r.useChan = true
			}
		}
	case *ast.ValueSpec:
		if len(n.Names) == 2 && len(n.Values) == 1 {
			if u, ok := isRecv(n.Values[0]); ok {
				r.recv2[u] = true
				r.useChan = true
			}
		}
	}
	return true
}

func (r *rewriter) post(c *astutil.Cursor) bool {
	switch n := c.Node().(type) {
	case *ast.UnaryExpr:
		if n.Op == token.ARROW && !r.skip[n] {
			r.useChan = true
			if r.recv2[n] {
				c.Replace(call(sel("vchan", "Recv2"), n.X))
			} else {
				c.Replace(call(sel("vchan", "Recv"), n.X))
			}
		}
	case *ast.SendStmt:
		if !r.skip[n] {
			r.useChan = true
			c.Replace(&ast.ExprStmt{X: call(call(sel("vchan", "SendTo"), n.Chan), n.Value)})
		}
	case *ast.CallExpr:
		// x.memberlist.Leave(d) / x.memberlist.UpdateNode(d): wall-clock waits inside memberlist (package vml)
		if se, ok := n.Fun.(*ast.SelectorExpr); ok && len(n.Args) == 0 && se.Sel.Name == "Shutdown" {
			if inner, ok := se.X.(*ast.SelectorExpr); ok && inner.Sel.Name == "memberlist" {
				r.useML = true
				c.Replace(call(sel("vml", "Shutdown"), se.X))
				return true
			}
		}
		if se, ok := n.Fun.(*ast.SelectorExpr); ok && len(n.Args) == 1 && (se.Sel.Name == "Leave" || se.Sel.Name == "UpdateNode") {
			if inner, ok := se.X.(*ast.SelectorExpr); ok && inner.Sel.Name == "memberlist" {
				r.useML = true
				c.Replace(call(sel("vml", se.Sel.Name), se.X, n.Args[0]))
				return true
			}
		}
		if id, ok := n.Fun.(*ast.Ident); ok && id.Name == "close" && len(n.Args) == 1 {
			if obj, ok := r.info.Uses[id]; !ok || obj == nil || obj.Parent() == types.Universe {
				r.useChan = true
				c.Replace(call(sel("vchan", "Close"), n.Args[0]))
			}
		}
	case *ast.AssignStmt:
		// m[k] = v on a map with unordered keys: note the key's first insertion
		if n.Tok == token.ASSIGN && len(n.Lhs) == 1 && c.Index() >= 0 {
			if ix, ok := n.Lhs[0].(*ast.IndexExpr); ok && r.unorderedKeyMap(ix.X) && sideEffectFree(ix.Index) {
				r.useSched = true
				c.InsertBefore(&ast.ExprStmt{X: call(sel("vsched", "NoteKey"), ix.Index)})
			}
		}
	case *ast.GoStmt:
		r.useSched = true
		r.rewriteGo(c, n)
	case *ast.RangeStmt:
		if r.rangeChan[n] {
			r.useChan = true
			c.Replace(r.rewriteRange(n))
		} else if r.rangeMap[n] {
			r.useSched = true
			c.Replace(r.rewriteMapRange(n))
		}
	case *ast.SelectStmt:
		r.useChan = true
		c.Replace(r.rewriteSelect(n))
	case *ast.BlockStmt:
		switch c.Parent().(type) {
		case *ast.SwitchStmt, *ast.TypeSwitchStmt, *ast.SelectStmt:
		default:
			n.List = r.withSteps(n.List)
		}
	case *ast.LabeledStmt:
		if blk, ok := n.Stmt.(*ast.BlockStmt); ok && r.selBlocks[blk] && hasBreakTo(blk, n.Label.Name) {
			last := len(blk.List) - 1
			blk.List[last] = &ast.LabeledStmt{Label: n.Label, Stmt: blk.List[last]}
			c.Replace(blk)
		}
	case *ast.CaseClause:
		n.Body = r.withSteps(n.Body)
	case *ast.CommClause:
		n.Body = r.withSteps(n.Body)
	}
	return true
}

func simpleArg(e ast.Expr) bool {
	switch x := e.(type) {
	case *ast.Ident, *ast.BasicLit, *ast.FuncLit:
		return true
	case *ast.SelectorExpr:
		return simpleArg(x.X)
	case *ast.ParenExpr:
		return simpleArg(x.X)
	case *ast.UnaryExpr:
		return x.Op == token.AND && simpleArg(x.X)
	}
	return false
}

func (r *rewriter) rewriteGo(c *astutil.Cursor, n *ast.GoStmt) {
	var buf bytes.Buffer
	printer.Fprint(&buf, r.fset, n.Call.Fun)
	name := buf.String()
	if len(name) > 40 || strings.Contains(name, "\n") {
		name = "func@" + r.where(n)
	}
	var pre []ast.Stmt
	for i, a := range n.Call.Args {
		if simpleArg(a) {
			continue
		}
		r.tmp++
		id := ast.NewIdent("_vg" + strconv.Itoa(r.tmp))
		pre = append(pre, &ast.AssignStmt{Lhs: []ast.Expr{id}, Tok: token.DEFINE, Rhs: []ast.Expr{a}})
		n.Call.Args[i] = ast.NewIdent(id.Name)
	}
	lit := &ast.FuncLit{Type: &ast.FuncType{Params: &ast.FieldList{}}, Body: &ast.BlockStmt{List: []ast.Stmt{&ast.ExprStmt{X: n.Call}}}}
	st := &ast.ExprStmt{X: call(sel("vsched", "Go"), strLit(name), lit)}
	if len(pre) == 0 {
		c.Replace(st)
		return
	}
	c.Replace(&ast.BlockStmt{List: append(pre, st)})
}

func (r *rewriter) rewriteRange(n *ast.RangeStmt) ast.Stmt {
	r.tmp++
	ok := ast.NewIdent("_vok" + strconv.Itoa(r.tmp))
	var lhs ast.Expr = ast.NewIdent("_")
	tok := token.DEFINE
	var pre []ast.Stmt
	if n.Key != nil {
		lhs = n.Key
		if n.Tok == token.ASSIGN {
			tok = token.ASSIGN
			pre = append(pre, &ast.DeclStmt{Decl: &ast.GenDecl{Tok: token.VAR, Specs: []ast.Spec{&ast.ValueSpec{Names: []*ast.Ident{ok}, Type: ast.NewIdent("bool")}}}})
		}
	}
	body := []ast.Stmt{}
	body = append(body, pre...)
	body = append(body,
		&ast.AssignStmt{Lhs: []ast.Expr{lhs, ok}, Tok: tok, Rhs: []ast.Expr{call(sel("vchan", "Recv2"), n.X)}},
		&ast.IfStmt{Cond: &ast.UnaryExpr{Op: token.NOT, X: ok}, Body: &ast.BlockStmt{List: []ast.Stmt{&ast.BranchStmt{Tok: token.BREAK}}}},
	)
	body = append(body, n.Body) // its own block: the body may redeclare the range variables (`k := k`)
	return &ast.ForStmt{Body: &ast.BlockStmt{List: body}}
}

// orderedKeyMap reports whether t is a map whose key type is a string or integer
// type (possibly named). Types that did not resolve (anything from an imported
// package under the stub importer) are left alone.
func orderedKeyMap(t types.Type) bool {
	mt, ok := t.Underlying().(*types.Map)
	if !ok || mt.Key() == nil {
		return false
	}
	b, ok := mt.Key().Underlying().(*types.Basic)
	if !ok || b.Kind() == types.Invalid {
		return false
	}
	return b.Info()&(types.IsInteger|types.IsString) != 0 && b.Info()&types.IsUntyped == 0
}

// rewriteMapRange turns `for k, v := range m { body }` over a map with ordered
// keys into a canonical iteration (ascending keys), because Go's random map
// order is not owned by the scheduler:
//
//	for _vmN := vsched.RangeMap(m); _vmN.Next(); { k, v := _vmN.Key(), _vmN.Val(); body }
//
// It stays a single for statement, so labels, break and continue keep working;
// m is evaluated once; entries deleted before they are reached are skipped.
func (r *rewriter) rewriteMapRange(n *ast.RangeStmt) ast.Stmt {
	r.tmp++
	it := "_vm" + strconv.Itoa(r.tmp)
	method := func(name string) ast.Expr {
		return call(&ast.SelectorExpr{X: ast.NewIdent(it), Sel: ast.NewIdent(name)})
	}
	blank := func(e ast.Expr) bool {
		if e == nil {
			return true
		}
		id, ok := e.(*ast.Ident)
		return ok && id.Name == "_"
	}
	var lhs, rhs []ast.Expr
	if !blank(n.Key) {
		lhs, rhs = append(lhs, n.Key), append(rhs, method("Key"))
	}
	if !blank(n.Value) {
		lhs, rhs = append(lhs, n.Value), append(rhs, method("Val"))
	}
	body := []ast.Stmt{}
	if len(lhs) > 0 {
		body = append(body, &ast.AssignStmt{Lhs: lhs, Tok: n.Tok, Rhs: rhs})
	}
	body = append(body, n.Body) // its own block: the body may redeclare the range variables (`k := k`)
	return &ast.ForStmt{
		Init: &ast.AssignStmt{Lhs: []ast.Expr{ast.NewIdent(it)}, Tok: token.DEFINE, Rhs: []ast.Expr{call(sel("vsched", r.rangeMapFn(n)), n.X)}},
		Cond: method("Next"),
		Body: &ast.BlockStmt{List: body},
	}
}

// rangeMapFn: sorted keys where the key type has an order, insertion order (NoteKey) otherwise.
func (r *rewriter) rangeMapFn(n *ast.RangeStmt) string {
	if r.rangeAny[n] {
		return "RangeMapAny"
	}
	return "RangeMap"
}

// unorderedKeyMap reports whether e is a map whose key type has no order.
func (r *rewriter) unorderedKeyMap(e ast.Expr) bool {
	tv, ok := r.info.Types[e]
	if !ok || tv.Type == nil {
		return false
	}
	_, isMap := tv.Type.Underlying().(*types.Map)
	return isMap && !orderedKeyMap(tv.Type)
}

func sideEffectFree(e ast.Expr) bool {
	switch e := e.(type) {
	case *ast.Ident:
		return true
	case *ast.SelectorExpr:
		return sideEffectFree(e.X)
	case *ast.ParenExpr:
		return sideEffectFree(e.X)
	}
	return false
}

func (r *rewriter) rewriteSelect(n *ast.SelectStmt) ast.Stmt {
	r.tmp++
	selID := "_vsel" + strconv.Itoa(r.tmp)
	var reg []ast.Stmt
	reg = append(reg, &ast.AssignStmt{Lhs: []ast.Expr{ast.NewIdent(selID)}, Tok: token.DEFINE, Rhs: []ast.Expr{call(sel("vchan", "NewSelect"))}})
	sw := &ast.SwitchStmt{Tag: call(&ast.SelectorExpr{X: ast.NewIdent(selID), Sel: ast.NewIdent("Wait")}), Body: &ast.BlockStmt{}}
	for i, cl := range n.Body.List {
		cc := cl.(*ast.CommClause)
		body := cc.Body
		switch cm := cc.Comm.(type) {
		case nil:
			reg = append(reg, &ast.ExprStmt{X: call(&ast.SelectorExpr{X: ast.NewIdent(selID), Sel: ast.NewIdent("Default")})})
		case *ast.SendStmt:
			reg = append(reg, &ast.ExprStmt{X: call(call(sel("vchan", "CaseSend"), ast.NewIdent(selID), cm.Chan), cm.Value)})
		case *ast.ExprStmt:
			u, _ := isRecv(cm.X)
			reg = append(reg, &ast.ExprStmt{X: call(sel("vchan", "CaseRecv"), ast.NewIdent(selID), u.X)})
		case *ast.AssignStmt:
			u, _ := isRecv(cm.Rhs[0])
			r.tmp++
			rc := "_vrc" + strconv.Itoa(r.tmp)
			reg = append(reg, &ast.AssignStmt{Lhs: []ast.Expr{ast.NewIdent(rc)}, Tok: token.DEFINE, Rhs: []ast.Expr{call(sel("vchan", "CaseRecv"), ast.NewIdent(selID), u.X)}})
			method := "Val"
			if len(cm.Lhs) == 2 {
				method = "Val2"
			}
			get := &ast.AssignStmt{Lhs: cm.Lhs, Tok: cm.Tok, Rhs: []ast.Expr{call(&ast.SelectorExpr{X: ast.NewIdent(rc), Sel: ast.NewIdent(method)})}}
			body = append([]ast.Stmt{get}, body...)
		}
		sw.Body.List = append(sw.Body.List, &ast.CaseClause{List: []ast.Expr{intLit(i)}, Body: body})
	}
	sw.Body.List = append(sw.Body.List, &ast.CaseClause{Body: []ast.Stmt{&ast.ExprStmt{X: call(ast.NewIdent("panic"), call(sel("vchan", "BadSelect")))}}})
	reg = append(reg, sw)
	blk := &ast.BlockStmt{List: reg}
	r.selBlocks[blk] = true
	return blk
}

func hasBreakTo(n ast.Node, label string) bool {
	found := false
	ast.Inspect(n, func(x ast.Node) bool {
		if b, ok := x.(*ast.BranchStmt); ok && b.Tok == token.BREAK && b.Label != nil && b.Label.Name == label {
			found = true
		}
		return !found
	})
	return found
}

func pureLvalue(e ast.Expr) bool {
	switch x := e.(type) {
	case *ast.Ident:
		return true
	case *ast.SelectorExpr:
		return pureLvalue(x.X)
	case *ast.ParenExpr:
		return pureLvalue(x.X)
	case *ast.StarExpr:
		return pureLvalue(x.X)
	}
	return false
}

func sameExpr(fset *token.FileSet, a, b ast.Expr) bool {
	var ba, bb bytes.Buffer
	printer.Fprint(&ba, fset, a)
	printer.Fprint(&bb, fset, b)
	return ba.String() == bb.String()
}

// splitRMW turns `x.f = append(x.f, ...)`, `x.f++` and `x.f op= e` into
// read / scheduling point / write.
func (r *rewriter) splitRMW(s ast.Stmt, step ast.Stmt) ast.Stmt {
	mk := func(lhs ast.Expr, rhs func(tmp ast.Expr) ast.Expr) ast.Stmt {
		r.tmp++
		tmp := "_vt" + strconv.Itoa(r.tmp)
		return &ast.BlockStmt{List: []ast.Stmt{
			&ast.AssignStmt{Lhs: []ast.Expr{ast.NewIdent(tmp)}, Tok: token.DEFINE, Rhs: []ast.Expr{lhs}},
			step,
			&ast.AssignStmt{Lhs: []ast.Expr{lhs}, Tok: token.ASSIGN, Rhs: []ast.Expr{rhs(ast.NewIdent(tmp))}},
		}}
	}
	switch n := s.(type) {
	case *ast.IncDecStmt:
		if _, isSel := n.X.(*ast.SelectorExpr); !isSel || !pureLvalue(n.X) {
			return nil
		}
		op := token.ADD
		if n.Tok == token.DEC {
			op = token.SUB
		}
		return mk(n.X, func(t ast.Expr) ast.Expr { return &ast.BinaryExpr{X: t, Op: op, Y: intLit(1)} })
	case *ast.AssignStmt:
		if len(n.Lhs) != 1 || len(n.Rhs) != 1 {
			return nil
		}
		if _, isSel := n.Lhs[0].(*ast.SelectorExpr); !isSel || !pureLvalue(n.Lhs[0]) {
			return nil
		}
		if n.Tok == token.ASSIGN {
			ce, ok := n.Rhs[0].(*ast.CallExpr)
			if !ok || len(ce.Args) < 1 {
				return nil
			}
			if id, ok := ce.Fun.(*ast.Ident); !ok || id.Name != "append" {
				return nil
			}
			if !sameExpr(r.fset, ce.Args[0], n.Lhs[0]) {
				return nil
			}
			return mk(n.Lhs[0], func(t ast.Expr) ast.Expr {
				args := append([]ast.Expr{t}, ce.Args[1:]...)
				return &ast.CallExpr{Fun: ce.Fun, Args: args, Ellipsis: ce.Ellipsis}
			})
		}
		var op token.Token
		switch n.Tok {
		case token.ADD_ASSIGN:
			op = token.ADD
		case token.SUB_ASSIGN:
			op = token.SUB
		case token.MUL_ASSIGN:
			op = token.MUL
		case token.OR_ASSIGN:
			op = token.OR
		case token.AND_ASSIGN:
			op = token.AND
		default:
			return nil
		}
		return mk(n.Lhs[0], func(t ast.Expr) ast.Expr { return &ast.BinaryExpr{X: t, Op: op, Y: &ast.ParenExpr{X: n.Rhs[0]}} })
	}
	return nil
}

func (r *rewriter) stepStmt(at ast.Node) ast.Stmt {
	r.useSched = true
	return &ast.ExprStmt{X: call(sel("vsched", "Step"), strLit(r.fnStack[0]), strLit(r.where(at)))}
}

func (r *rewriter) withSteps(list []ast.Stmt) []ast.Stmt {
	if len(list) == 0 {
		return list
	}
	out := make([]ast.Stmt, 0, 2*len(list))
	for _, s := range list {
		if es, ok := s.(*ast.ExprStmt); ok {
			// do not step before our own generated statements
			if ce, ok := es.X.(*ast.CallExpr); ok {
				if se, ok := ce.Fun.(*ast.SelectorExpr); ok {
					if id, ok := se.X.(*ast.Ident); ok && id.Name == "vsched" && se.Sel.Name == "Step" {
						out = append(out, s)
						continue
					}
				}
			}
		}
		if !s.Pos().IsValid() {
			out = append(out, s)
			continue
		}
		step := r.stepStmt(s)
		if sp := r.splitRMW(s, r.stepStmt(s)); sp != nil {
			out = append(out, step, sp)
			continue
		}
		out = append(out, step, s)
	}
	return out
}
