#!/bin/bash
# Builds the framework offline from files on disk: vinstr, the instrumented overlay, vcheck.
set -eu
cd /verif
export GOFLAGS=-mod=mod GOPROXY=off
unset GOSUMDB || true
mkdir -p build evidence
(cd engine/vinstr && go build -o /verif/build/vinstr .)
build/vinstr -repo /repo -shims /verif/engine/shims -inject /verif/engine/inject -out /verif/build/instr
cp /repo/go.sum harness/go.sum
(cd harness && go build -overlay /verif/build/instr/overlay.json -o /verif/build/vcheck ./cmd/vcheck)
echo "setup ok"
