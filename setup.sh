#!/bin/bash
# Builds the framework offline from files on disk: vinstr, the instrumented overlay, vcheck.
set -eu
ROOT=${VERIF_ROOT:-/verif}
REPO=${VERIF_REPO:-/repo}
cd $ROOT
export GOFLAGS=-mod=mod GOPROXY=off
unset GOSUMDB || true
mkdir -p build evidence
(cd engine/vinstr && go build -o $ROOT/build/vinstr .)
build/vinstr -repo $REPO -shims $ROOT/engine/shims -inject $ROOT/engine/inject -out $ROOT/build/instr
sed "s#=> /repo#=> $REPO#" harness/go.mod > build/go.mod
cp $REPO/go.sum build/go.sum
(cd harness && go build -modfile=$ROOT/build/go.mod -overlay $ROOT/build/instr/overlay.json -o $ROOT/build/vcheck ./cmd/vcheck)
echo "setup ok"
